---------------------------- MODULE AwStoreGen ----------------------------
(* Behaviour generator: AwStore's step relation with the operation recorded in `last`; in simulation *)
(* mode the invariant Emit prints each behaviour's operations as one JSON line.                      *)
EXTENDS AwStore, TLCExt, Json

CONSTANT Depth
VARIABLE last
gvars == <<bk, last>>

\* One candidate operation per kind, drawn at random with the state in view so that most candidates are
\* enabled; TLC's simulator then picks uniformly among the enabled kinds (kind-balanced sampling).
\* The model's ids are handles; the harness maps them to the implementation's ids.
Pick(S) == RandomElement(S)
RandEv(idset) == Event(Pick(idset), Pick(Ticks), Pick(Durs), Pick(Datas))
Present(s) == {c \in Buckets : s[c].ex}
Missing(s) == {c \in Buckets : ~s[c].ex}
FreeIds(s, b) == Ids \ LiveIds(s, b)
Kinds == {"create", "update", "delete_bucket", "absent", "insert", "insert2", "bulk", "bulk2", "replace", "replace_last",
          "replace_last2", "delete", "delete_dead", "foreign"}
RandOp(k, s) ==
  LET pb == IF Present(s) = {} THEN Pick(Buckets) ELSE Pick(Present(s))
      mb == IF Missing(s) = {} THEN Pick(Buckets) ELSE Pick(Missing(s))
      nonempty == {c \in Present(s) : s[c].evs # {}}
      eb == IF nonempty = {} THEN pb ELSE Pick(nonempty)
      liveid(b) == IF s[b].ex /\ s[b].evs # {} THEN Pick(LiveIds(s, b)) ELSE Pick(Ids)
      freeid(b) == IF s[b].ex /\ FreeIds(s, b) # {} THEN Pick(FreeIds(s, b)) ELSE Pick(Ids)
  IN CASE k = "create" -> [op |-> "create", b |-> mb, nm |-> "s1",
                           meta |-> [type |-> Pick(Strs), client |-> Pick(Strs), host |-> Pick(Strs),
                                     name |-> Pick(Strs \cup {"None"}), data |-> Pick(MDatas), created |-> Pick(Ticks)]]
       [] k = "update" -> [op |-> "update", b |-> pb,
                           f |-> [type |-> Pick(Strs \cup {"-"}), client |-> Pick(Strs \cup {"-"}), host |-> Pick(Strs \cup {"-"}),
                                  name |-> Pick(Strs \cup {"-"}), data |-> Pick((MDatas \ {"m0"}) \cup {"-"})]]
       [] k = "delete_bucket" -> [op |-> "delete_bucket", b |-> pb]
       [] k = "absent" -> LET kd == Pick({"lookup", "describe", "update", "delete"})
                          IN [op |-> "absent", b |-> mb, kind |-> kd, out |-> AbsentOutcome(kd)]
       [] k \in {"insert", "insert2"} -> [op |-> "insert", b |-> pb, ev |-> RandEv({freeid(pb)})]
       [] k = "bulk" -> LET u == IF s[eb].ex /\ s[eb].evs # {} THEN {RandEv({liveid(eb)})} ELSE {}
                            n == RandEv({freeid(eb)})
                        IN [op |-> "bulk", b |-> eb, ups |-> u, news |-> Pick({{}, {n}})]
       [] k = "bulk2" -> LET n == RandEv({freeid(pb)})
                             f2 == FreeIds(s, pb) \ {n.id}
                             m == IF f2 = {} THEN n ELSE Pick({[n EXCEPT !.id = Pick(f2)], RandEv({Pick(f2)})})
                         IN [op |-> "bulk", b |-> pb, ups |-> {}, news |-> {n, m}]
       [] k = "replace" -> [op |-> "replace", b |-> eb, ev |-> RandEv({liveid(eb)})]
       [] k \in {"replace_last", "replace_last2"} ->
            LET nw == IF s[eb].ex /\ s[eb].evs # {} THEN {x.id : x \in Newest(s, eb)} ELSE Ids
            IN [op |-> "replace_last", b |-> eb, ev |-> RandEv({Pick(nw)})]
       [] k = "delete" -> [op |-> "delete", b |-> eb, id |-> liveid(eb)]
       [] k = "delete_dead" -> [op |-> "delete", b |-> pb, id |-> freeid(pb)]
       [] k = "foreign" -> [op |-> "foreign", b |-> pb, id |-> freeid(pb), post |-> IF s[pb].ex THEN s[pb].evs ELSE {}]

GInit == bk = [b \in Buckets |-> None] /\ last = [op |-> "init"]
GNext == \E k \in Kinds : \E o \in {RandOp(k, bk)} : Step(o) /\ Bounded(bk') /\ last' = o
GSpec == GInit /\ [][GNext]_gvars

Emit == TLCGet("level") < Depth \/
        LET t == Trace IN PrintT(<<"BEHAVIOUR", ToJson([i \in 1..(Len(t) - 1) |-> t[i + 1].last])>>)
=============================================================================
