------------------------------ MODULE AwMigration ------------------------------
(***************************************************************************)
(* C14: first creation of the default SQLite store beside a legacy (peewee *)
(* v2) database.  A store is a function bucket id -> [meta, evs] with evs  *)
(* a set of [id, v] (v an opaque (instant, duration, data) value).  There  *)
(* is one legacy file per profile (normal / testing) or none.              *)
(***************************************************************************)
EXTENDS Integers, Sequences, FiniteSets, TLC

CONSTANTS BucketIds, Metas, Vals, EvIds, MaxEvs
Profiles == {"normal", "testing"}
NoFile == [exists |-> FALSE]
VARIABLES legacy,     \* profile -> NoFile or [exists |-> TRUE, store |-> store]
          new,        \* profile -> NoFile or [exists |-> TRUE, store |-> store]
          touched     \* profile -> BOOLEAN: legacy file bytes changed
vars == <<legacy, new, touched>>

Stores == UNION {[S -> [meta : Metas, evs : {E \in SUBSET [id : EvIds, v : Vals] : Cardinality(E) <= MaxEvs /\ \A x, y \in E : x.id = y.id => x = y}]] : S \in SUBSET BucketIds}
Bag(E) == [v \in Vals |-> Cardinality({e \in E : e.v = v})]
\* what a faithful migration produces: same buckets, same metadata, same events as a bag of values (ids are local to a database)
SameContents(s, t) == /\ DOMAIN s = DOMAIN t
                      /\ \A b \in DOMAIN s : s[b].meta = t[b].meta /\ Bag(s[b].evs) = Bag(t[b].evs)
Empty == [b \in {} |-> 0]

Init == /\ legacy \in [Profiles -> {NoFile} \cup {[exists |-> TRUE, store |-> s] : s \in Stores}]
        /\ new = [p \in Profiles |-> NoFile] /\ touched = [p \in Profiles |-> FALSE]
\* the default SQLite store of a profile is created for the first time
FirstOpen(p) ==
  /\ ~new[p].exists
  /\ \E s \in Stores :
       /\ IF legacy[p].exists THEN SameContents(legacy[p].store, s) ELSE s = Empty
       /\ new' = [new EXCEPT ![p] = [exists |-> TRUE, store |-> s]]
  /\ UNCHANGED <<legacy, touched>>
Next == \E p \in Profiles : FirstOpen(p)
Spec == Init /\ [][Next]_vars

NothingLost == \A p \in Profiles : (new[p].exists /\ legacy[p].exists) => SameContents(legacy[p].store, new[p].store)
NoCrossProfile == \A p \in Profiles : (new[p].exists /\ ~legacy[p].exists) => new[p].store = Empty
LegacyUntouched == [][legacy' = legacy /\ touched' = touched]_vars
=============================================================================
