---------------------------- MODULE AwSqliteDesign ----------------------------
(***************************************************************************)
(* Design layer of the raw-SQL backend (aw_datastore/storages/sqlite.py):  *)
(* one table of event rows with GLOBAL ids and a bucketrow column, one     *)
(* table of buckets; one action per statement group of the code, with the  *)
(* row selections written as the SQL writes them.  TLC checks that every   *)
(* action is a step of the property layer (AwStore) under the refinement   *)
(* mapping Abs: this is C02 / C04 / C07 on the design.  The knobs select   *)
(* the repaired statements or the pinned tree's, so the same text is also  *)
(* the negative control (the pinned selections are refuted).               *)
(***************************************************************************)
EXTENDS Integers, Sequences, FiniteSets, TLC

CONSTANTS BucketNames, Ticks, Durs, Datas, MaxRows,
          ReplaceLastScoped,   \* TRUE: ... WHERE bucketrow = b ORDER BY starttime DESC, id DESC LIMIT 1 (repaired)
          ReplaceScoped,       \* TRUE: UPDATE ... WHERE id = ? AND bucketrow = b (repaired); FALSE: re-parents the row
          OrderByStart         \* TRUE: get_events ORDER BY starttime DESC, id DESC (repaired); FALSE: ORDER BY endtime DESC

VARIABLES rows,      \* set of [id, br (bucket rowid), st, en, d]
          brow,      \* bucket name -> rowid (0 = absent)
          nextId, nextRow,
          last       \* the abstract operation the step is meant to be (an AwStore operation record)
vars == <<rows, brow, nextId, nextRow, last>>

\* ---- the property layer, instantiated -----------------------------------------------------------
Meta0 == [type |-> "s1", client |-> "s1", host |-> "s1", name |-> "s1", data |-> "m0", created |-> 0]
S == INSTANCE AwStore WITH Buckets <- BucketNames, Ids <- 1..MaxRows, Strs <- {"s1"}, MDatas <- {"m0"}, MaxEvs <- MaxRows,
                           bk <- [b \in BucketNames |-> [ex |-> FALSE]]
RowsOf(R, r) == {x \in R : x.br = r}
AsEvent(x) == [id |-> x.id, ts |-> x.st, dur |-> x.en - x.st, d |-> x.d]
\* refinement mapping: what the rows mean as per-bucket event sets
Abs(R, B) == [b \in BucketNames |-> IF B[b] = 0 THEN [ex |-> FALSE]
                                    ELSE [ex |-> TRUE, type |-> "s1", client |-> "s1", host |-> "s1", name |-> "s1", data |-> "m0", created |-> 0,
                                          evs |-> {AsEvent(x) : x \in RowsOf(R, B[b])}]]

\* ---- SQL selections ---------------------------------------------------------------------------------
MaxOf(Z) == CHOOSE m \in Z : \A z \in Z : z <= m
MinOf(Z) == CHOOSE m \in Z : \A z \in Z : m <= z
\* get_events(b, limit = 1): the first row in the ORDER BY
First(R, r) == LET mine == RowsOf(R, r) IN
               IF OrderByStart
               THEN LET ms == MaxOf({x.st : x \in mine}) IN CHOOSE x \in mine : x.st = ms /\ x.id = MaxOf({y.id : y \in {z \in mine : z.st = ms}})
               ELSE LET me == MaxOf({x.en : x \in mine}) IN CHOOSE x \in mine : x.en = me /\ x.id = MinOf({y.id : y \in {z \in mine : z.en = me}})
\* replace_last's target row
Target(R, r) == IF ReplaceLastScoped
                THEN LET mine == RowsOf(R, r)
                         ms == MaxOf({x.st : x \in mine})
                     IN CHOOSE x \in mine : x.st = ms /\ x.id = MaxOf({y.id : y \in {z \in mine : z.st = ms}})
                ELSE \* pinned: WHERE id = (SELECT id FROM events WHERE endtime = (SELECT max(endtime) ... of this bucket)) - any bucket's row
                     LET me == MaxOf({x.en : x \in RowsOf(R, r)})
                         cands == {x \in R : x.en = me}
                     IN CHOOSE x \in cands : x.id = MinOf({y.id : y \in cands})

\* ---- actions -------------------------------------------------------------------------------------------
Create(b) == /\ brow[b] = 0
             /\ brow' = [brow EXCEPT ![b] = nextRow] /\ nextRow' = nextRow + 1
             /\ last' = [op |-> "create", b |-> b, meta |-> Meta0, nm |-> "s1"]
             /\ UNCHANGED <<rows, nextId>>
DeleteBucket(b) == /\ brow[b] # 0
                   /\ rows' = rows \ RowsOf(rows, brow[b])          \* DELETE FROM events WHERE bucketrow IN (...)
                   /\ brow' = [brow EXCEPT ![b] = 0]                 \* DELETE FROM buckets WHERE id = ?
                   /\ last' = [op |-> "delete_bucket", b |-> b]
                   /\ UNCHANGED <<nextId, nextRow>>
Insert(b, t, u, d) == /\ brow[b] # 0 /\ nextId <= MaxRows
                      /\ rows' = rows \cup {[id |-> nextId, br |-> brow[b], st |-> t, en |-> t + u, d |-> d]}
                      /\ nextId' = nextId + 1                        \* AUTOINCREMENT: ids are never reused
                      /\ last' = [op |-> "insert", b |-> b, ev |-> [id |-> nextId, ts |-> t, dur |-> u, d |-> d]]
                      /\ UNCHANGED <<brow, nextRow>>
\* replace(b, i, ev) with an id that is live in bucket b (in contract) ...
Replace(b, i, t, u, d) ==
  /\ brow[b] # 0 /\ \E x \in RowsOf(rows, brow[b]) : x.id = i
  /\ rows' = {IF x.id = i /\ (~ReplaceScoped \/ x.br = brow[b]) THEN [x EXCEPT !.br = brow[b], !.st = t, !.en = t + u, !.d = d] ELSE x : x \in rows}
  /\ last' = [op |-> "replace", b |-> b, ev |-> [id |-> i, ts |-> t, dur |-> u, d |-> d]]
  /\ UNCHANGED <<brow, nextId, nextRow>>
\* ... and with an id that is live in ANOTHER bucket (out of contract, C04): other buckets must not change
ReplaceForeign(b, i, t, u, d) ==
  /\ brow[b] # 0 /\ ~(\E x \in RowsOf(rows, brow[b]) : x.id = i) /\ \E x \in rows : x.id = i
  /\ rows' = {IF x.id = i /\ (~ReplaceScoped \/ x.br = brow[b]) THEN [x EXCEPT !.br = brow[b], !.st = t, !.en = t + u, !.d = d] ELSE x : x \in rows}
  /\ last' = [op |-> "foreign", b |-> b, id |-> i, post |-> {AsEvent(x) : x \in RowsOf(rows', brow[b])}]
  /\ UNCHANGED <<brow, nextId, nextRow>>
\* the heartbeat pattern: get(limit = 1), then replace_last
ReplaceLast(b, t, u, d) ==
  /\ brow[b] # 0 /\ RowsOf(rows, brow[b]) # {}
  /\ LET tgt == Target(rows, brow[b])
         read == First(rows, brow[b])                                \* what the limit-1 read returned just before
     IN /\ rows' = {IF x = tgt THEN [x EXCEPT !.st = t, !.en = t + u, !.d = d] ELSE x : x \in rows}
        /\ last' = [op |-> "replace_last", b |-> b, ev |-> [id |-> read.id, ts |-> t, dur |-> u, d |-> d]]
  /\ UNCHANGED <<brow, nextId, nextRow>>
Delete(b, i) == /\ brow[b] # 0
                /\ rows' = {x \in rows : ~(x.id = i /\ x.br = brow[b])}
                /\ last' = [op |-> "delete", b |-> b, id |-> i]
                /\ UNCHANGED <<brow, nextId, nextRow>>

Init == rows = {} /\ brow = [b \in BucketNames |-> 0] /\ nextId = 1 /\ nextRow = 1 /\ last = [op |-> "init"]
Next == \/ \E b \in BucketNames : Create(b) \/ DeleteBucket(b)
        \/ \E b \in BucketNames, t \in Ticks, u \in Durs, d \in Datas : Insert(b, t, u, d) \/ ReplaceLast(b, t, u, d)
        \/ \E b \in BucketNames, i \in 1..MaxRows, t \in Ticks, u \in Durs, d \in Datas : Replace(b, i, t, u, d) \/ ReplaceForeign(b, i, t, u, d)
        \/ \E b \in BucketNames, i \in 1..MaxRows : Delete(b, i)
Spec == Init /\ [][Next]_vars

\* ---- refinement: every design step is the AwStore step it is meant to be --------------------------------
Refines == [][ S!Pre(Abs(rows, brow), last') /\ S!Post(Abs(rows, brow), last') = Abs(rows', brow') ]_vars
\* C04 on the design, stated directly
FrameOK == [][\A c \in BucketNames \ {last'.b} : Abs(rows', brow')[c] = Abs(rows, brow)[c]]_vars
\* bucket rowids grow with every re-creation: bound them for model checking
Bound == nextRow <= MaxRows + 2
IdsGloballyUnique == \A x, y \in rows : x.id = y.id => x = y
=============================================================================
