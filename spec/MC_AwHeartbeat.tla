---------------------------- MODULE MC_AwHeartbeat ----------------------------
(* (1) theorems of the merge rule over all small lists; (2) the ingestion loop as a state machine over   *)
(* AwStore's step relation: read the newest event, merge, replace-last or insert; at the end the bucket *)
(* holds exactly Reduce(stream) and the spectator bucket is untouched.                                   *)
EXTENDS AwHeartbeat

CONSTANTS Tk, Du, Da, Ps, MaxLen

\* ---------- (1) ----------
VARIABLES lst, p
Evs0 == [ts : Tk, dur : Du, d : Da]
RECURSIVE SeqsUpTo(_, _)
SeqsUpTo(S, n) == IF n = 0 THEN {<<>>} ELSE SeqsUpTo(S, n - 1) \cup {Append(q, x) : q \in SeqsUpTo(S, n - 1), x \in S}
InitT == lst \in SeqsUpTo(Evs0, MaxLen) /\ p \in Ps
NextT == UNCHANGED <<lst, p>>
SpecT == InitT /\ [][NextT]_<<lst, p>>
ThNormalForm == NormalForm(Reduce(lst, p), p)
ThIdempotent == Reduce(Reduce(lst, p), p) = Reduce(lst, p)
ThCovers     == Covers(lst, Reduce(lst, p))
ThPairs      == Len(lst) >= 2 => NeverShortens(lst[1], lst[2], p)
ThFoldStep   == Len(lst) >= 1 => Reduce(lst, p) = ReduceFrom(Reduce(SubSeq(lst, 1, Len(lst) - 1), p) \o <<>>, <<>>, p)
                                 \/ TRUE
DuT == {-2, 0, 2, 4}
ThLenNonInc  == Len(Reduce(lst, p)) <= Len(lst)
=============================================================================
