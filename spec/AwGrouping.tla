------------------------------ MODULE AwGrouping ------------------------------
(***************************************************************************)
(* Grouping, chunking, sorting, limiting, filtering (C16) as relations.    *)
(* An event is [ts, dur, data] where data is a function from key names to  *)
(* abstract values (the dummy key "_" is always present so that no data    *)
(* dict is empty in the JSON traces).                                      *)
(***************************************************************************)
EXTENDS Integers, Sequences, FiniteSets

SeqSet(sq) == {sq[i] : i \in 1..Len(sq)}
RECURSIVE SumDur(_)
SumDur(sq) == IF sq = <<>> THEN 0 ELSE Head(sq).dur + SumDur(Tail(sq))
Count(sq, x) == Cardinality({k \in 1..Len(sq) : sq[k] = x})
SameBag(s, t) == Len(s) = Len(t) /\ \A k \in 1..Len(s) : Count(s, s[k]) = Count(t, s[k])
RECURSIVE Concat(_)
Concat(ss) == IF ss = <<>> THEN <<>> ELSE Head(ss) \o Concat(Tail(ss))
Keys(e) == DOMAIN e.data \ {"_"}
Has(e, k) == k \in Keys(e)

\* ---- merge_events_by_keys ----
Absent == "<absent>"
\* the combination of presence and value of the given keys
Sig(e, ks) == [k \in ks |-> IF Has(e, k) THEN e.data[k] ELSE Absent]
Group(In, ks, s) == SelectSeq(In, LAMBDA e : Sig(e, ks) = s)
GroupData(e, ks) == [k \in (Keys(e) \cap ks) \cup {"_"} |-> e.data[k]]
MergeClause(In, keys, Out, In2) ==
  LET ks == SeqSet(keys)
      sigs == {Sig(e, ks) : e \in SeqSet(In)}
      OutV == [k \in 1..Len(Out) |-> [dur |-> Out[k].dur, data |-> Out[k].data]]
  IN
  IF In2 # In THEN "input-modified"
  ELSE IF keys = <<>> THEN (IF Out = In THEN "none" ELSE "no-keys-must-return-the-events")
  ELSE IF Len(Out) # Cardinality(sigs) THEN "not-one-event-per-distinct-combination-of-presence-and-value"
  ELSE IF \E s \in sigs : Count(OutV, [dur |-> SumDur(Group(In, ks, s)), data |-> GroupData(Group(In, ks, s)[1], ks)]) # 1
       THEN "group-duration-is-not-the-sum-or-group-data-wrong"
  ELSE IF SumDur(Out) # SumDur(In) THEN "total-duration-not-conserved"
  ELSE "none"

\* ---- chunk_events_by_key (inputs in which every event bears the key) ----
\* a chunk is [ts, dur, val, subs]
Ascending(In) == \A i \in 1..(Len(In) - 1) : In[i].ts + In[i].dur <= In[i+1].ts
ChunkClause(In, key, Out, In2) ==
  IF In2 # In THEN "input-modified"
  ELSE IF Concat([k \in 1..Len(Out) |-> Out[k].subs]) # In THEN "sub-events-do-not-concatenate-back-to-the-input"
  ELSE IF \E k \in 1..Len(Out) : Out[k].subs = <<>> THEN "empty-chunk"
  ELSE IF \E k \in 1..Len(Out) : \E e \in SeqSet(Out[k].subs) : e.data[key] # Out[k].val THEN "chunk-joins-different-values"
  ELSE IF \E k \in 1..Len(Out) : Out[k].dur # SumDur(Out[k].subs) THEN "chunk-duration-is-not-the-sum"
  ELSE IF \E k \in 1..Len(Out) : Out[k].ts # Out[k].subs[1].ts THEN "chunk-does-not-start-with-its-first-sub-event"
  ELSE IF Ascending(In) /\ \E k \in 1..(Len(Out) - 1) : Out[k].val = Out[k+1].val THEN "runs-not-maximal-on-ascending-input"
  ELSE "none"

\* ---- sorting, limiting, summing ----
SortClause(In, by, Out, In2) ==
  IF In2 # In THEN "input-modified"
  ELSE IF ~SameBag(In, Out) THEN "not-a-permutation"
  ELSE IF by = "timestamp" /\ \E k \in 1..(Len(Out) - 1) : Out[k].ts > Out[k+1].ts THEN "not-ascending-by-timestamp"
  ELSE IF by = "duration" /\ \E k \in 1..(Len(Out) - 1) : Out[k].dur < Out[k+1].dur THEN "not-descending-by-duration"
  ELSE "none"
LimitClause(In, n, Out, In2) ==
  IF In2 # In THEN "input-modified"
  ELSE IF Out # SubSeq(In, 1, IF n < Len(In) THEN n ELSE Len(In)) THEN "not-the-prefix"
  ELSE "none"
SumClause(In, total, In2) ==
  IF In2 # In THEN "input-modified" ELSE IF total # SumDur(In) THEN "sum-wrong" ELSE "none"

\* ---- filter_keyvals / exclude_keyvals ----
Pred(e, key, vals) == Has(e, key) /\ e.data[key] \in SeqSet(vals)
FilterClause(In, key, vals, OutF, OutX, In2) ==
  IF In2 # In THEN "input-modified"
  ELSE IF OutF # SelectSeq(In, LAMBDA e : Pred(e, key, vals)) THEN "filter-is-not-the-matching-subsequence"
  ELSE IF OutX # SelectSeq(In, LAMBDA e : ~Pred(e, key, vals)) THEN "exclude-is-not-the-complementary-subsequence"
  ELSE "none"

\* ---- concat ----
ConcatClause(A, B, Out, A2, B2) ==
  IF A2 # A \/ B2 # B THEN "input-modified"
  ELSE IF Out # A \o B THEN "not-the-concatenation"
  ELSE "none"

\* ---- filter_keyvals_regex (string values only) ----
\* A string value is a set of abstract tokens (concretised as words); a regex is one token (concretised as
\* that literal), "any" (the empty regex), "dot" (".": any non-empty string; "e" is the empty string) or "never".
Tokens(v) == CASE v = "v1" -> {"alpha"} [] v = "v2" -> {"beta"} [] v = "v12" -> {"alpha", "beta"} [] v = "e" -> {} [] OTHER -> {}
RxMatch(rx, v) == CASE rx = "any" -> TRUE [] rx = "dot" -> v # "e" [] rx = "never" -> FALSE [] OTHER -> rx \in Tokens(v)
RegexClause(In, key, rx, Out, In2) ==
  IF In2 # In THEN "input-modified"
  ELSE IF Out # SelectSeq(In, LAMBDA e : Has(e, key) /\ RxMatch(rx, e.data[key])) THEN "regex-filter-is-not-the-matching-subsequence"
  ELSE "none"
=============================================================================
