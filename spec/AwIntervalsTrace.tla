---------------------------- MODULE AwIntervalsTrace ----------------------------
(* Judge for C09 / C10 / C15: recorded calls of filter_period_intersect, period_union, flood and        *)
(* union_no_overlap (inputs, output, inputs after the call) against the relations of AwIntervals.       *)
EXTENDS AwIntervals, TLC, TLCExt, Json, IOUtils

Traces == JsonDeserialize(IOEnv.TRACE_FILE)
VARIABLES tid, l
vars == <<tid, l>>
T == Traces[tid]
R == T[l]
Clause(r) ==
  CASE r.op = "intersect" -> IntersectClause(r.A, r.B, r.out, r.A2, r.B2)
    [] r.op = "union"     -> UnionClause(r.A, r.B, r.out)
    [] r.op = "flood"     -> FloodClause(r.A, r.P, r.out, r.A2)
    [] r.op = "uno"       -> UnionNoOverlapClause(r.A, r.B, r.out, r.A2, r.B2)
    [] r.op = "raised" -> "transform-raised"
    [] OTHER              -> "unknown-record"
Init == tid \in 1..Len(Traces) /\ l = 1
Next == l <= Len(T) /\ l' = l + 1 /\ UNCHANGED tid
Spec == Init /\ [][Next]_vars
Verdict ==
  IF l > Len(T) THEN PrintT(<<"ACCEPT", tid>>)
  ELSE IF Clause(R) # "none" THEN PrintT(<<"REJECT", tid, l, R.op, Clause(R)>>)
  ELSE TRUE
=============================================================================
