------------------------------ MODULE AwReads ------------------------------
(***************************************************************************)
(* Property layer for time-window reads (C03) and for the window plumbing  *)
(* of query_bucket (C12).                                                  *)
(*                                                                         *)
(* A stored event e occupies the closed interval [e.ts, e.ts + e.dur].     *)
(* A window has an optional start and an optional end.  Reach(e, w) says   *)
(* how far e reaches into w (negative: how far outside it lies).  Window   *)
(* edges are honoured to the store's millisecond resolution: events that   *)
(* reach at least Tol into the window MUST be returned, events at least    *)
(* Tol outside MUST NOT, the others may go either way.  A recorded result  *)
(* r is judged by predicates on r (no enumeration of admissible results).  *)
(***************************************************************************)
EXTENDS Integers, Sequences, FiniteSets

CONSTANT Tol          \* edge tolerance in ticks (2 when a tick is 1 ms)

INF == 2000000000
Min(a, b) == IF a < b THEN a ELSE b
Max(a, b) == IF a > b THEN a ELSE b
Abs(a) == IF a < 0 THEN -a ELSE a
SeqSet(sq) == {sq[i] : i \in 1..Len(sq)}

End(e) == e.ts + e.dur
\* window record: [hs |-> BOOLEAN, s |-> Int, he |-> BOOLEAN, e |-> Int]  (hs/he: has start / end)
Reach(e, w) == Min(IF w.hs THEN End(e) - w.s ELSE INF, IF w.he THEN w.e - e.ts ELSE INF)
Must(evs, w)      == {e \in evs : Reach(e, w) >= Tol}
MayOrMust(evs, w) == {e \in evs : Reach(e, w) > -Tol}
Ids(S) == {e.id : e \in S}
Stored(evs, i) == CHOOSE e \in evs : e.id = i

\* a returned element is the stored event, or (on the backend that clips) the stored event cut to the window
IsStoredOrClip(evs, x, w) ==
  /\ x.id \in Ids(evs)
  /\ LET e == Stored(evs, x.id) IN
     /\ e.d = x.d
     /\ \/ (x.ts = e.ts /\ x.dur = e.dur)
        \/ /\ Abs(x.ts - (IF w.hs THEN Max(e.ts, w.s) ELSE e.ts)) <= Tol
           /\ Abs(End(x) - (IF w.he THEN Min(End(e), w.e) ELSE End(e))) <= Tol

RIds(r) == [k \in 1..Len(r) |-> r[k].id]

\* named clauses (the trace judge reports the first one that fails)
ElementsOK(evs, r, w) == \A k \in 1..Len(r) : IsStoredOrClip(evs, r[k], w)
NoDuplicates(r)       == \A j, k \in 1..Len(r) : j < k => r[j].id # r[k].id
NewestFirst(evs, r)   == \A k \in 1..(Len(r) - 1) : Stored(evs, r[k].id).ts >= Stored(evs, r[k+1].id).ts
NothingOutside(evs, r, w) == SeqSet(RIds(r)) \subseteq Ids(MayOrMust(evs, w))
LimitOK(evs, r, lim, w) ==
  LET rid == SeqSet(RIds(r)) IN
  IF lim = 0 THEN Len(r) = 0
  ELSE IF lim < 0 THEN Ids(Must(evs, w)) \subseteq rid
  ELSE /\ Len(r) <= lim
       \* fewer than lim came back: nothing that must be returned is missing;
       \* exactly lim: every must-event strictly newer than the oldest returned one is there
       /\ IF Len(r) < lim THEN Ids(Must(evs, w)) \subseteq rid
          ELSE \A e \in Must(evs, w) : (e.ts > Stored(evs, r[Len(r)].id).ts) => e.id \in rid

ReadClause(evs, r, lim, w) ==
  IF ~ElementsOK(evs, r, w) THEN "element-not-stored-or-clip"
  ELSE IF ~NoDuplicates(r) THEN "duplicate"
  ELSE IF ~NewestFirst(evs, r) THEN "not-newest-first"
  ELSE IF ~NothingOutside(evs, r, w) THEN "event-outside-window-returned"
  ELSE IF ~LimitOK(evs, r, lim, w) THEN "intersecting-event-missing-or-limit"
  ELSE "none"
ReadAdmissible(evs, r, lim, w) == ReadClause(evs, r, lim, w) = "none"

CountAdmissible(evs, n, w) == Cardinality(Must(evs, w)) <= n /\ n <= Cardinality(MayOrMust(evs, w))
=============================================================================
