---------------------------- MODULE AwQueryGen ----------------------------
(***************************************************************************)
(* Program generator for C11 / C12 / C17.  Enumerates well-formed programs *)
(* of the query grammar (literals at several depths, calls with 0-3        *)
(* arguments, bracketed arguments in first / middle / last position, every *)
(* registered built-in with well-typed arguments, calls inside list and    *)
(* dict literals, multi-statement programs with rebinding and aliasing)    *)
(* and writes them, each with its text in four spacing styles, to the      *)
(* JSON file named by the environment variable OUT_FILE.  With Sample > 0  *)
(* additionally that many random deeper programs (RandomElement).          *)
(***************************************************************************)
EXTENDS AwQuery, SequencesExt, Json, IOUtils

CONSTANTS Sample        \* number of random deeper programs

\* ---- structural layer ----------------------------------------------------------------------
LitNames == {"s_abc", "s_empty", "s_comma", "s_brack", "s_paren", "s_brace", "s_eq", "s_sq", "s_dq", "s_space", "s_open", "s_close"}
Ints == {I(0), I(7), I(42)}
Atoms == Ints \cup {S(n) : n \in LitNames}
AtomsS == {I(7), S("s_comma"), S("s_sq"), S("s_brack")}
Lists1 == {L(<<>>)} \cup {L(<<a>>) : a \in Atoms} \cup {L(<<a, b>>) : a \in AtomsS, b \in AtomsS}
Dicts1 == {D(<<>>)} \cup {D(<<E(k, a)>>) : k \in {"s_abc", "s_brace", "s_dq"}, a \in AtomsS}
          \cup {D(<<E("s_abc", a), E("s_eq", b)>>) : a \in AtomsS, b \in AtomsS}
Lit1S == {L(<<>>), L(<<I(1)>>), L(<<S("s_brack"), I(2)>>), D(<<>>), D(<<E("s_brace", S("s_comma"))>>), D(<<E("s_abc", I(3)), E("s_sq", S("s_dq"))>>)}
Lit2 == {L(<<x, y>>) : x \in Lit1S, y \in Lit1S \cup AtomsS} \cup {L(<<a, x>>) : a \in AtomsS, x \in Lit1S}
        \cup {D(<<E("s_abc", x), E("s_paren", y)>>) : x \in Lit1S, y \in Lit1S \cup AtomsS}
        \cup {L(<<L(<<x>>)>>) : x \in Lit1S} \cup {D(<<E("s_eq", D(<<E("s_comma", x)>>))>>) : x \in Lit1S}

LA == {L(<<>>), L(<<I(1)>>), L(<<I(2), I(3)>>), L(<<S("s_comma")>>), L(<<L(<<I(4)>>)>>), L(<<D(<<E("s_brace", I(5))>>), S("s_paren")>>)}
LA3 == {L(<<I(1)>>), L(<<S("s_brack"), I(2)>>), L(<<>>)}
SCalls == {C("nop", <<>>)}
      \cup {C("concat", <<a, b>>) : a \in LA, b \in LA}
      \cup {C("limit_events", <<a, I(n)>>) : a \in LA, n \in {0, 1, 2}}
      \cup {C("concat", <<C("concat", <<a, b>>), c>>) : a \in LA3, b \in LA3, c \in LA3}
      \cup {C("concat", <<a, C("concat", <<b, c>>)>>) : a \in LA3, b \in LA3, c \in LA3}
      \cup {C("concat", <<C("concat", <<a, b>>), C("concat", <<c, a>>)>>) : a \in LA3, b \in LA3, c \in LA3}
      \cup {C("limit_events", <<C("concat", <<a, b>>), I(n)>>) : a \in LA3, b \in LA3, n \in {1, 2}}
      \cup {C("concat", <<C("limit_events", <<a, I(1)>>), b>>) : a \in LA3, b \in LA3}
      \cup {C("limit_events", <<C("limit_events", <<C("concat", <<a, b>>), I(2)>>), I(1)>>) : a \in LA3, b \in LA3}
SC3 == {C("nop", <<>>), C("concat", <<L(<<I(1)>>), L(<<S("s_paren")>>)>>), C("limit_events", <<L(<<I(2), I(3)>>), I(1)>>)}
InLits == {L(<<c, a>>) : c \in SC3, a \in AtomsS} \cup {L(<<a, c>>) : c \in SC3, a \in AtomsS} \cup {L(<<c, d>>) : c \in SC3, d \in SC3}
          \cup {D(<<E("s_abc", c), E("s_brace", a)>>) : c \in SC3, a \in AtomsS} \cup {D(<<E("s_comma", a), E("s_dq", c)>>) : c \in SC3, a \in AtomsS}
          \cup {C("concat", <<L(<<c>>), L(<<d, a>>)>>) : c \in SC3, d \in SC3, a \in AtomsS}

\* ---- every registered built-in, well-typed, over event lists --------------------------------
QB(b) == C("query_bucket", <<S(b)>>)
EvL0 == {QB("b1"), QB("b2"), L(<<>>)}
Classes(cl) == L(<<L(<<cl, D(<<E("regex", S("re1"))>>)>>)>>)
\* the same regex restricted to one key: the rule dictionary as written decides, not an earlier rule with the same regex
ClassesSel(cl) == L(<<L(<<cl, D(<<E("regex", S("re1")), E("select_keys", L(<<S("app")>>))>>)>>)>>)
KeyPreserving(x, y) ==
  {C("filter_keyvals", <<x, S("app"), L(<<S("x")>>)>>), C("exclude_keyvals", <<x, S("app"), L(<<S("x"), S("s_abc")>>)>>),
   \* values to keep / drop may themselves be lists or dicts (a category is a list)
   C("filter_keyvals", <<x, S("app"), L(<<L(<<S("c1"), S("c2")>>), S("x")>>)>>), C("exclude_keyvals", <<x, S("title"), L(<<D(<<E("s_abc", I(1))>>), L(<<>>)>>)>>),
   C("filter_keyvals_regex", <<x, S("title"), S("re1")>>),
   C("filter_period_intersect", <<x, y>>), C("union_no_overlap", <<x, y>>), C("concat", <<x, y>>),
   C("limit_events", <<x, I(2)>>), C("sort_by_timestamp", <<x>>), C("sort_by_duration", <<x>>), C("flood", <<x>>),
   C("split_url_events", <<x>>), C("simplify_window_titles", <<x, S("title")>>),
   C("categorize", <<x, Classes(L(<<S("c1"), S("c2")>>))>>), C("tag", <<x, Classes(S("tagA"))>>),
   C("categorize", <<x, ClassesSel(L(<<S("c1")>>))>>), C("tag", <<x, ClassesSel(S("tagA"))>>)}
Other(x, y) ==
  {C("period_union", <<x, y>>), C("merge_events_by_keys", <<x, L(<<S("app"), S("title")>>)>>), C("merge_events_by_keys", <<x, L(<<>>)>>),
   C("chunk_events_by_key", <<x, S("app")>>), C("sum_durations", <<x>>)}
Scalars == {C("find_bucket", <<S("bkt")>>), C("find_bucket", <<S("bkt"), S("host2")>>), C("query_bucket_eventcount", <<S("b1")>>),
            C("query_bucket", <<C("find_bucket", <<S("bkt"), S("host2")>>)>>)}
EvL1 == UNION {KeyPreserving(x, y) : x \in EvL0, y \in EvL0}
Builtins1 == EvL1 \cup UNION {Other(x, y) : x \in EvL0, y \in EvL0} \cup Scalars \cup EvL0
EvL1S == {C("filter_keyvals", <<QB("b1"), S("app"), L(<<S("x")>>)>>), C("concat", <<QB("b1"), QB("b2")>>), C("flood", <<QB("b2")>>),
          C("limit_events", <<QB("b1"), I(2)>>), C("sort_by_duration", <<QB("b1")>>), C("categorize", <<QB("b2"), Classes(L(<<S("c1")>>))>>)}
Builtins2 == UNION {KeyPreserving(x, y) \cup Other(x, y) : x \in EvL1S, y \in {QB("b2"), C("sort_by_timestamp", <<QB("b1")>>)}}
             \cup UNION {KeyPreserving(x, y) : x \in {QB("b1")}, y \in EvL1S}
BInLits == {L(<<c, I(7)>>) : c \in Scalars \cup EvL1S} \cup {D(<<E("s_abc", c), E("s_brack", d)>>) : c \in EvL1S, d \in Scalars}
           \cup {C("limit_events", <<x, C("nop", <<>>)>>) : x \in EvL1S}

\* ---- programs -------------------------------------------------------------------------------
Single(S0) == {<<Stmt("RETURN", e)>> : e \in S0}
Vars1 == {<<Stmt("x", e), Stmt("RETURN", V("x"))>> : e \in Lit1S \cup SC3 \cup AtomsS}
     \cup {<<Stmt("x1", e), Stmt("y_2", V("x1")), Stmt("x1", f), Stmt("RETURN", L(<<V("x1"), V("y_2")>>))>> : e \in Lit1S, f \in SC3 \cup AtomsS}
     \cup {<<Stmt("a", e), Stmt("b", C("concat", <<V("a"), V("a")>>)), Stmt("a", C("limit_events", <<V("b"), I(1)>>)), Stmt("RETURN", D(<<E("s_abc", V("a")), E("s_eq", V("b"))>>))>> : e \in LA}
     \cup {<<Stmt("RETURN", e), Stmt("z", V("RETURN")), Stmt("RETURN", L(<<V("z"), V("true"), V("False"), V("NAME")>>))>> : e \in AtomsS \cup SC3}
\* a variable (and an alias of it) is read again after it was passed to a built-in: built-ins must not
\* change what a variable evaluates to
Reuse == {<<Stmt("x", a), Stmt("y", C("concat", <<V("x"), b>>)), Stmt("RETURN", L(<<V("x"), V("y")>>))>> : a \in LA, b \in LA3}
    \cup {<<Stmt("x", a), Stmt("z", V("x")), Stmt("y", C("concat", <<V("z"), b>>)), Stmt("w", C("limit_events", <<V("y"), I(1)>>)),
            Stmt("RETURN", D(<<E("s_abc", V("x")), E("s_eq", V("y")), E("s_comma", V("z")), E("s_sq", V("w"))>>))>> : a \in LA, b \in LA3}
    \cup {<<Stmt("x", a), Stmt("y", C("concat", <<b, V("x")>>)), Stmt("y2", C("concat", <<V("y"), V("x")>>)), Stmt("RETURN", L(<<V("x"), V("y"), V("y2")>>))>> : a \in LA3, b \in LA3}
Vars2 == {<<Stmt("evs", x), Stmt("a", f), Stmt("RETURN", D(<<E("s_abc", V("a")), E("s_comma", V("evs"))>>))>> :
              x \in {QB("b1")}, f \in KeyPreserving(V("evs"), V("evs")) \cup Other(V("evs"), QB("b2"))}
     \cup {<<Stmt("evs", QB("b1")), Stmt("evs2", QB("b2")), Stmt("evs", f), Stmt("n", C("query_bucket_eventcount", <<S("b2")>>)),
             Stmt("RETURN", C("limit_events", <<V("evs"), V("n")>>))>> : f \in KeyPreserving(V("evs"), V("evs2"))}
     \cup {<<Stmt("bid", C("find_bucket", <<S("bkt")>>)), Stmt("evs", C("query_bucket", <<V("bid")>>)), Stmt("RETURN", L(<<V("bid"), f>>))>> : f \in Other(V("evs"), V("evs"))}

\* the same bucket is read again after a built-in has worked on (and possibly annotated, cleared or re-timed) the first read
ReRead == {<<Stmt("a", f), Stmt("RETURN", L(<<V("a"), QB("b1")>>))>> : f \in KeyPreserving(QB("b1"), QB("b2")) \cup Other(QB("b1"), QB("b2"))}
     \cup {<<Stmt("e1", QB("b2")), Stmt("a", f), Stmt("e2", QB("b2")), Stmt("RETURN", C("concat", <<V("e2"), V("a")>>))>> : f \in KeyPreserving(V("e1"), V("e1"))}
\* the SAME statement text occurs twice and a variable on its right-hand side was rebound in between: a variable
\* evaluates to its most recent assignment each time the statement runs
Repeat == {<<Stmt("x", a), Stmt("x", C("concat", <<V("x"), b>>)), Stmt("x", C("concat", <<V("x"), b>>)), Stmt("RETURN", V("x"))>> : a \in LA3, b \in LA3}
     \cup {<<Stmt("a", e), Stmt("b", V("a")), Stmt("a", f), Stmt("b", V("a")), Stmt("RETURN", L(<<V("a"), V("b")>>))>> : e \in AtomsS, f \in AtomsS \ {I(7)}}
     \cup {<<Stmt("RETURN", V("true")), Stmt("x", a), Stmt("RETURN", C("limit_events", <<V("x"), I(1)>>)), Stmt("x", b), Stmt("RETURN", C("limit_events", <<V("x"), I(1)>>))>> : a \in LA3, b \in LA3}
\* strings whose brackets do not balance, in front of later statements: a bracket inside a string is text, not structure
Unbalanced == {<<Stmt("x", S(a)), Stmt("y", L(<<V("x"), S(b)>>)), Stmt("RETURN", C("concat", <<V("y"), L(<<S(a), I(7)>>)>>))>> : a \in {"s_open", "s_close"}, b \in {"s_open", "s_close", "s_abc"}}
         \cup {<<Stmt("RETURN", D(<<E("s_abc", S(a))>>)), Stmt("z", V("RETURN")), Stmt("RETURN", L(<<V("z"), S(b)>>))>> : a \in {"s_open", "s_close"}, b \in {"s_open", "s_close"}}
Structural == Unbalanced \cup Single(Atoms \cup Lists1 \cup Dicts1 \cup Lit2 \cup SCalls \cup InLits) \cup Vars1 \cup Reuse \cup Repeat
WithBuiltins == Single(Builtins1 \cup Builtins2 \cup BInLits) \cup Vars2 \cup ReRead

\* ---- random deeper programs -----------------------------------------------------------------
Pick(Z) == RandomElement(Z)
RECURSIVE RExpr(_), RList(_), REv(_)
RList(d) == IF d = 0 THEN Pick(LA)
            ELSE Pick({C("concat", <<RList(d - 1), RList(d - 1)>>), C("limit_events", <<RList(d - 1), Pick({I(0), I(1), I(3)})>>),
                       L(<<RExpr(d - 1)>>), L(<<RExpr(d - 1), RExpr(d - 1), RExpr(d - 1)>>), Pick(LA)})
RExpr(d) == IF d = 0 THEN Pick(Atoms \cup Lit1S \cup SC3)
            ELSE Pick({RList(d), D(<<E(Pick({"s_abc", "s_brace", "s_dq"}), RExpr(d - 1)), E(Pick({"s_comma", "s_sq"}), RExpr(d - 1))>>),
                       RExpr(d - 1), L(<<RExpr(d - 1), RExpr(d - 1)>>)})
REv(d) == IF d = 0 THEN Pick(EvL0) ELSE Pick(KeyPreserving(REv(d - 1), REv(d - 1)) \cup {REv(d - 1)})
RProg(i) == IF i % 3 = 0 THEN <<Stmt("RETURN", RExpr(3))>>
            ELSE IF i % 3 = 1 THEN <<Stmt("v", RList(2)), Stmt("w", RExpr(2)), Stmt("v", C("concat", <<V("v"), RList(1)>>)), Stmt("RETURN", D(<<E("s_abc", V("v")), E("s_eq", V("w"))>>))>>
            ELSE <<Stmt("evs", REv(2)), Stmt("RETURN", Pick(Other(V("evs"), REv(1)) \cup KeyPreserving(V("evs"), REv(1)) \cup {L(<<V("evs"), RExpr(1)>>)}))>>
Randoms == {RProg(i) : i \in 1..Sample}

\* ---- single injected faults (C17): the exception family the property names for each ------------------
Templates == KeyPreserving(QB("b1"), QB("b2")) \cup Other(QB("b1"), QB("b2"))
             \cup {QB("b1"), C("query_bucket_eventcount", <<S("b1")>>), C("nop", <<>>), C("find_bucket", <<S("bkt"), S("host2")>>)}
ArgTypes(f) ==
  CASE f \in {"filter_keyvals", "exclude_keyvals"} -> <<"list", "str", "list">>
    [] f = "filter_keyvals_regex" -> <<"list", "str", "str">>
    [] f \in {"filter_period_intersect", "period_union", "concat", "union_no_overlap", "merge_events_by_keys", "categorize", "tag"} -> <<"list", "list">>
    [] f = "limit_events" -> <<"list", "int">>
    [] f \in {"chunk_events_by_key", "simplify_window_titles"} -> <<"list", "str">>
    [] f \in {"sort_by_timestamp", "sort_by_duration", "sum_durations", "flood", "split_url_events"} -> <<"list">>
    [] f \in {"query_bucket", "query_bucket_eventcount", "find_bucket"} -> <<"str">>
    [] OTHER -> <<>>
Wrong(ty) == CASE ty = "list" -> {I(5), S("s_abc"), D(<<>>)} [] ty = "str" -> {I(5), L(<<>>)} [] ty = "int" -> {S("s_abc"), L(<<I(1)>>)}
\* a faulty expression placed bare, inside a list, as an argument, and after valid statements
Contexts(e) == {<<Stmt("RETURN", e)>>, <<Stmt("RETURN", L(<<I(7), e>>))>>, <<Stmt("RETURN", C("concat", <<L(<<e>>), L(<<>>)>>))>>,
                <<Stmt("x", C("nop", <<>>)), Stmt("y", e), Stmt("RETURN", V("x"))>>,
                <<Stmt("RETURN", I(7)), Stmt("y", e)>>}          \* the whole text is checked, also what follows RETURN
TooMany == {C(c.f, Append(c.a, I(1))) : c \in Templates}
TooFew  == {C(c.f, SubSeq(c.a, 1, Len(c.a) - 1)) : c \in {d \in Templates : Len(d.a) >= 1 /\ ~(d.f = "find_bucket" /\ Len(d.a) = 2)}}
WrongTy == UNION {UNION {{C(c.f, [c.a EXCEPT ![j] = w]) : w \in Wrong(ArgTypes(c.f)[j])} : j \in 1..Len(ArgTypes(c.f))} : c \in Templates}
           \* the optional second argument of find_bucket (a host name) given as something that is not a string
           \cup {C("find_bucket", <<S("bkt"), w>>) : w \in {I(5), L(<<I(1)>>), D(<<E("s_abc", I(1))>>)}}
NoBucket == {C("query_bucket", <<S("nobucket")>>), C("query_bucket_eventcount", <<S("nobucket")>>), C("flood", <<C("query_bucket", <<S("nobucket")>>)>>)}
NoVar == {V("nosuchvar"), L(<<V("nosuchvar")>>), D(<<E("s_abc", V("nosuchvar"))>>), C("sort_by_timestamp", <<V("nosuchvar")>>), C("concat", <<L(<<>>), V("nosuchvar")>>)}
NoFun == {C("no_such_function", <<>>), C("no_such_function", <<L(<<I(1)>>), S("s_comma")>>), C("flood", <<C("nosuchfn", <<QB("b1")>>)>>), L(<<C("nosuchfn", <<I(1)>>)>>)}
FaultProgs(fault) ==
  CASE fault = "too-many-arguments"  -> UNION {Contexts(e) : e \in TooMany}
    [] fault = "too-few-arguments"   -> UNION {Contexts(e) : e \in TooFew}
    [] fault = "wrong-argument-type" -> UNION {Contexts(e) : e \in WrongTy}
    [] fault = "unknown-bucket"      -> UNION {Contexts(e) : e \in NoBucket}
    [] fault = "unknown-variable"    -> UNION {Contexts(e) : e \in NoVar}
    [] fault = "unknown-function"    -> UNION {Contexts(e) : e \in NoFun}
Faults == {"too-many-arguments", "too-few-arguments", "wrong-argument-type", "unknown-bucket", "unknown-variable", "unknown-function"}
\* malformed text: a valid program text with its last closing bracket / quote removed, a statement without '=', a doubled or leading comma
Closers == {")", "]", "}", "<sq>", "<dq>"}
RECURSIVE LastIdx(_, _)
LastIdx(sq, Z) == IF sq = <<>> THEN 0 ELSE IF sq[Len(sq)] \in Z THEN Len(sq) ELSE LastIdx(SubSeq(sq, 1, Len(sq) - 1), Z)
DropAt(sq, i) == SubSeq(sq, 1, i - 1) \o SubSeq(sq, i + 1, Len(sq))
MalformedOf(p) ==
  LET t == ShowProg(p, Tight)
      c == LastIdx(t, Closers)
      k == LastIdx(t, {","})
  IN (IF c > 0 THEN {DropAt(t, c)} ELSE {}) \cup (IF k > 0 THEN {SubSeq(t, 1, k) \o <<",">> \o SubSeq(t, k + 1, Len(t))} ELSE {})
     \cup {SubSeq(t, 1, Len(t)) \o <<";", "justaword">>}
MalformedBases == Single(SCalls \cup Lit2 \cup Templates)
FaultCase(p, fault) == [kind |-> "fault", fault |-> fault, prog |-> p, texts |-> [i \in 1..Len(Styles) |-> ShowProg(p, Styles[i])]]
MalCase(t) == [kind |-> "fault", fault |-> "malformed", prog |-> <<>>, texts |-> <<t>>]
AllFaults == Flatten([i \in 1..Cardinality(Faults) |-> LET f == SetToSeq(Faults)[i] IN SetToSeq({FaultCase(p, f) : p \in FaultProgs(f)})])
             \o SetToSeq({MalCase(t) : t \in UNION {MalformedOf(p) : p \in MalformedBases}})

Case(p, kind) == [kind |-> kind, prog |-> p, texts |-> [i \in 1..Len(Styles) |-> ShowProg(p, Styles[i])]]
AllCases == SetToSeq({Case(p, "structural") : p \in Structural}) \o SetToSeq({Case(p, "builtins") : p \in WithBuiltins})
            \o SetToSeq({Case(p, "random") : p \in Randoms})
Pool == [n \in PoolNames |-> StrText(n)]

ASSUME JsonSerialize(IOEnv.OUT_FILE, [pool |-> Pool, cases |-> AllCases, faults |-> AllFaults])
ASSUME PrintT(<<"GENERATED", Len(AllCases), Len(AllFaults)>>)

VARIABLE dummy
Init == dummy = 0
Next == UNCHANGED dummy
Spec == Init /\ [][Next]_dummy
=============================================================================
