------------------------------ MODULE AwStore ------------------------------
(***************************************************************************)
(* Property layer of the aw-core datastore: the backend-independent        *)
(* meaning of every Datastore / Bucket operation on the whole observable   *)
(* state.  Buckets form a keyed map (C05); each bucket is a plain set of   *)
(* events with ids unique inside the bucket (C01, C02); every operation    *)
(* names one target bucket and leaves all others alone (C04).              *)
(*                                                                         *)
(* One step relation, Step(o), parametrised by an operation record o, is   *)
(* shared by                                                               *)
(*   - the bounded model (MC: Next == \E o \in Ops : Step(o)),             *)
(*   - the behaviour generator (AwStoreGen: Step(o) /\ last' = o),         *)
(*   - the trace judge (AwStoreTrace: Step(op built from the recorded      *)
(*     call) /\ bk' = state observed in the implementation).               *)
(* Where the properties leave latitude (which id a new event gets, the     *)
(* name of a bucket created without one, which of several newest events a  *)
(* limit-1 read returns, what an out-of-contract id does to the addressed  *)
(* bucket) the latitude is a parameter of the operation record: the model  *)
(* enumerates it, the judge takes it from the observation.                 *)
(***************************************************************************)
EXTENDS Integers, Sequences, FiniteSets, TLC

CONSTANTS Buckets,      \* bucket ids
          Ticks,        \* instants (integer ticks) used by the bounded model
          Durs,         \* durations (ticks)
          Datas,        \* abstract event data values
          Ids,          \* event ids available to the bounded model
          Strs,         \* metadata strings (type / client / hostname / name)
          MDatas,       \* abstract bucket data dicts
          MaxEvs        \* bound on events per bucket in the bounded model

VARIABLE bk             \* bucket id -> None or bucket record

None == [ex |-> FALSE]

Event(i, t, u, d) == [id |-> i, ts |-> t, dur |-> u, d |-> d]
End(e) == e.ts + e.dur

Exists(s, b)  == s[b].ex
Live(s, b)    == IF s[b].ex THEN s[b].evs ELSE {}
LiveIds(s, b) == {e.id : e \in Live(s, b)}
\* the newest events: maximal timestamp (ties are possible: that is where a limit-1 read has latitude)
Newest(s, b)  == {x \in Live(s, b) : \A y \in Live(s, b) : y.ts <= x.ts}
WithId(s, b, i) == {e \in Live(s, b) : e.id = i}

Bucket(m, nm) == [ex |-> TRUE, type |-> m.type, client |-> m.client, host |-> m.host, name |-> nm,
                  data |-> m.data, created |-> m.created, evs |-> {}]

-----------------------------------------------------------------------------
(* Enabling conditions and post-states, one pair per operation.            *)

\* o.meta.name = "None": created without a name, the implementation may pick any (o.nm)
PreCreate(s, o)  == /\ ~Exists(s, o.b)
                    /\ (o.meta.name # "None" => o.nm = o.meta.name)
PostCreate(s, o) == [s EXCEPT ![o.b] = Bucket(o.meta, o.nm)]

\* update: exactly the supplied fields change ("-" = not supplied)
Upd(x, f) == [x EXCEPT !.type   = IF f.type   = "-" THEN @ ELSE f.type,
                       !.client = IF f.client = "-" THEN @ ELSE f.client,
                       !.host   = IF f.host   = "-" THEN @ ELSE f.host,
                       !.name   = IF f.name   = "-" THEN @ ELSE f.name,
                       !.data   = IF f.data   = "-" THEN @ ELSE f.data]
PreUpdate(s, o)  == Exists(s, o.b)
PostUpdate(s, o) == [s EXCEPT ![o.b] = Upd(@, o.f)]

PreDeleteBucket(s, o)  == Exists(s, o.b)
PostDeleteBucket(s, o) == [s EXCEPT ![o.b] = None]      \* the events die with the bucket

\* lookup / describe / update / delete of a bucket that does not exist: raises, changes nothing
AbsentOutcome(kind) == IF kind = "lookup" THEN "KeyError" ELSE "ValueError"
PreAbsent(s, o)  == ~Exists(s, o.b) /\ o.out = AbsentOutcome(o.kind)
PostAbsent(s, o) == s

\* insert of an event without id: it gets an id that no live event of the bucket has
PreInsert(s, o)  == Exists(s, o.b) /\ o.ev.id \notin LiveIds(s, o.b)
PostInsert(s, o) == [s EXCEPT ![o.b].evs = @ \cup {o.ev}]

\* bulk insert / upsert: events carrying (live) ids rewrite those events, the others get fresh, distinct ids
PreBulk(s, o)  == /\ Exists(s, o.b)
                  /\ \A u \in o.ups : u.id \in LiveIds(s, o.b)
                  /\ \A u, v \in o.ups : u.id = v.id => u = v
                  /\ \A n \in o.news : n.id \notin LiveIds(s, o.b)
                  /\ \A n, m \in o.news : n.id = m.id => n = m
PostBulk(s, o) == [s EXCEPT ![o.b].evs = {x \in @ : x.id \notin {u.id : u \in o.ups}} \cup o.ups \cup o.news]

\* replace by id (id live in this bucket): that event is rewritten, keeps its id
PreReplace(s, o)  == Exists(s, o.b) /\ o.ev.id \in LiveIds(s, o.b)
PostReplace(s, o) == [s EXCEPT ![o.b].evs = {x \in @ : x.id # o.ev.id} \cup {o.ev}]

\* replace-last: rewrites exactly the event a limit-1 read returned immediately before (o.ev.id), which
\* must be one of the newest events; nothing else is touched
PreReplaceLast(s, o)  == Exists(s, o.b) /\ \E x \in Newest(s, o.b) : x.id = o.ev.id
PostReplaceLast(s, o) == PostReplace(s, o)

\* delete by id: removes exactly the addressed event, or nothing when the id is not live here
PreDelete(s, o)  == Exists(s, o.b)
PostDelete(s, o) == [s EXCEPT ![o.b].evs = {x \in @ : x.id # o.id}]

\* out-of-contract ids (C04): replace / upsert with an id that is not live in the addressed bucket (it may
\* be live in another bucket, or dead).  The operation is rejected or affects the addressed bucket only:
\* o.post is what the addressed bucket's events look like afterwards (unspecified), all else is unchanged.
WellFormedEvs(S) == \A x, y \in S : x.id = y.id => x = y
PreForeign(s, o)  == Exists(s, o.b) /\ o.id \notin LiveIds(s, o.b) /\ WellFormedEvs(o.post)
PostForeign(s, o) == [s EXCEPT ![o.b].evs = o.post]

Pre(s, o) ==
  CASE o.op = "create"        -> PreCreate(s, o)
    [] o.op = "update"        -> PreUpdate(s, o)
    [] o.op = "delete_bucket" -> PreDeleteBucket(s, o)
    [] o.op = "absent"        -> PreAbsent(s, o)
    [] o.op = "insert"        -> PreInsert(s, o)
    [] o.op = "bulk"          -> PreBulk(s, o)
    [] o.op = "replace"       -> PreReplace(s, o)
    [] o.op = "replace_last"  -> PreReplaceLast(s, o)
    [] o.op = "delete"        -> PreDelete(s, o)
    [] o.op = "foreign"       -> PreForeign(s, o)
    [] OTHER                  -> FALSE

Post(s, o) ==
  CASE o.op = "create"        -> PostCreate(s, o)
    [] o.op = "update"        -> PostUpdate(s, o)
    [] o.op = "delete_bucket" -> PostDeleteBucket(s, o)
    [] o.op = "absent"        -> PostAbsent(s, o)
    [] o.op = "insert"        -> PostInsert(s, o)
    [] o.op = "bulk"          -> PostBulk(s, o)
    [] o.op = "replace"       -> PostReplace(s, o)
    [] o.op = "replace_last"  -> PostReplaceLast(s, o)
    [] o.op = "delete"        -> PostDelete(s, o)
    [] o.op = "foreign"       -> PostForeign(s, o)

Step(o) == Pre(bk, o) /\ bk' = Post(bk, o)

-----------------------------------------------------------------------------
(* The bounded model: every operation with every argument over the constants. *)

Evs    == {Event(i, t, u, d) : i \in Ids, t \in Ticks, u \in Durs, d \in Datas}
Metas  == [type : Strs, client : Strs, host : Strs, name : Strs \cup {"None"}, data : MDatas, created : Ticks]
Fields == [type : Strs \cup {"-"}, client : {"-"}, host : Strs \cup {"-"}, name : Strs \cup {"-"}, data : MDatas \cup {"-"}]
SmallSets(S) == {{}} \cup {{x} : x \in S} \cup {{x, y} : x, y \in S}

Ops(s) ==
       {[op |-> "create", b |-> b, meta |-> m, nm |-> nm] : b \in Buckets, m \in Metas, nm \in Strs}
  \cup {[op |-> "update", b |-> b, f |-> f] : b \in Buckets, f \in Fields}
  \cup {[op |-> "delete_bucket", b |-> b] : b \in Buckets}
  \cup {[op |-> "absent", b |-> b, kind |-> k, out |-> AbsentOutcome(k)] :
            b \in Buckets, k \in {"lookup", "describe", "update", "delete"}}
  \cup {[op |-> "insert", b |-> b, ev |-> e] : b \in Buckets, e \in Evs}
  \cup {[op |-> "bulk", b |-> b, ups |-> u, news |-> n] : b \in Buckets, u \in SmallSets(Evs), n \in SmallSets(Evs)}
  \cup {[op |-> "replace", b |-> b, ev |-> e] : b \in Buckets, e \in Evs}
  \cup {[op |-> "replace_last", b |-> b, ev |-> e] : b \in Buckets, e \in Evs}
  \cup {[op |-> "delete", b |-> b, id |-> i] : b \in Buckets, i \in Ids}
  \cup UNION {{[op |-> "foreign", b |-> b, id |-> i, post |-> p] :
                  p \in (IF s[b].ex THEN {s[b].evs} \cup {s[b].evs \cup {e} : e \in {x \in Evs : x.id = i}} ELSE {})}
              : b \in Buckets, i \in Ids}

Bounded(s) == \A b \in Buckets : s[b].ex => Cardinality(s[b].evs) <= MaxEvs

Init == bk = [b \in Buckets |-> None]
Next == \E o \in Ops(bk) : Step(o) /\ Bounded(bk')
Spec == Init /\ [][Next]_bk

-----------------------------------------------------------------------------
(* Properties of the reference model (checked by TLC on the bounded model, and evaluated on every  *)
(* step of every implementation trace by AwStoreTrace).                                           *)

TypeOK == \A b \in Buckets : bk[b].ex \in BOOLEAN

\* C01/C02: ids are unique inside a bucket - an id never names two different live events
IdsUnique(s) == \A b \in Buckets : s[b].ex => WellFormedEvs(s[b].evs)
IdsUniquePerBucket == IdsUnique(bk)

\* C04: a step changes at most one bucket
FrameRel(s, t) == \E b \in Buckets : \A c \in Buckets \ {b} : t[c] = s[c]
Frame == [][FrameRel(bk, bk')]_bk

\* C05: a bucket that comes into existence is empty (also when the id was used before)
CreatedEmptyRel(s, t) == \A b \in Buckets : (~s[b].ex /\ t[b].ex) => t[b].evs = {}
CreatedEmpty == [][CreatedEmptyRel(bk, bk')]_bk

\* C05: the creation instant of a bucket never changes while it exists
CreatedStableRel(s, t) == \A b \in Buckets : (s[b].ex /\ t[b].ex) => t[b].created = s[b].created
CreatedStable == [][CreatedStableRel(bk, bk')]_bk

\* C02/C05: events change only through event operations, never through metadata operations, and an
\* event that survives a step keeps its value unless its id was the one addressed: per step at most the
\* events named by the operation differ (checked per operation by the trace judge, which knows the call).
=============================================================================
