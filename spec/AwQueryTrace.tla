---------------------------- MODULE AwQueryTrace ----------------------------
(***************************************************************************)
(* Judge for C11 and C17.                                                  *)
(*  exec  : a well-formed program (AST from AwQueryGen) with the recorded  *)
(*          executions of its text in every spacing style: outcome, result *)
(*          and log of built-in applications.  Each execution must be the  *)
(*          one the program denotes (ExecClause) and the executions must   *)
(*          not differ between spacing styles.                             *)
(*  fault : a well-formed program with one injected fault and the recorded *)
(*          exception: the family the property names for that fault.       *)
(*  text  : arbitrary text (corrupted programs, random token strings):     *)
(*          terminates with a value or a query error; another exception    *)
(*          is admissible only if it was raised inside the application of  *)
(*          a built-in (not by parsing, name, arity or type resolution).   *)
(***************************************************************************)
EXTENDS AwQuery, TLCExt, Json, IOUtils

Traces == JsonDeserialize(IOEnv.TRACE_FILE)
VARIABLES tid, l
vars == <<tid, l>>
T == Traces[tid]
R == T[l]
SeqSet(sq) == {sq[i] : i \in 1..Len(sq)}

ExecAll(r) ==
  LET bad == {i \in 1..Len(r.runs) : ExecClause(r.prog, r.runs[i]) # "none"} IN
  IF bad # {} THEN ExecClause(r.prog, r.runs[CHOOSE i \in bad : \A j \in bad : i <= j])
  ELSE IF \E i \in 2..Len(r.runs) : r.runs[i].result # r.runs[1].result \/ r.runs[i].log # r.runs[1].log THEN "spacing-changes-the-result"
  ELSE "none"

Expected(fault) ==
  CASE fault \in {"unknown-variable", "unknown-function", "too-many-arguments", "too-few-arguments"} -> "QueryInterpretException"
    [] fault \in {"wrong-argument-type", "unknown-bucket"} -> "QueryFunctionException"
    [] fault = "malformed" -> "QueryParseException"
    [] OTHER -> "?"
FaultClause(r) ==
  IF r.out = "ok" THEN (IF r.fault = "malformed" THEN "none" ELSE "fault-not-reported")     \* a lenient parser may accept malformed text
  ELSE IF r.out = "Hang" THEN "does-not-terminate"
  ELSE IF "QueryException" \notin SeqSet(r.exc.fam) THEN "non-query-exception-escapes"
  ELSE IF Expected(r.fault) \notin SeqSet(r.exc.fam) THEN "wrong-error-family"
  ELSE "none"
TextClause(r) ==
  IF r.out = "ok" THEN "none"
  ELSE IF r.out = "Hang" THEN "does-not-terminate"
  ELSE IF "QueryException" \in SeqSet(r.exc.fam) THEN "none"
  ELSE IF r.exc.stage = "apply" THEN "none"                \* raised inside a built-in's own computation
  ELSE "non-query-exception-escapes"

Clause(r) ==
  CASE r.kind = "exec"  -> ExecAll(r)
    [] r.kind = "fault" -> FaultClause(r)
    [] r.kind = "text"  -> TextClause(r)
    [] OTHER            -> "unknown-record"
Init == tid \in 1..Len(Traces) /\ l = 1
Next == l <= Len(T) /\ l' = l + 1 /\ UNCHANGED tid
Spec == Init /\ [][Next]_vars
Verdict ==
  IF l > Len(T) THEN PrintT(<<"ACCEPT", tid>>)
  ELSE IF Clause(R) # "none" THEN PrintT(<<"REJECT", tid, l, R.kind, Clause(R)>>)
  ELSE TRUE
=============================================================================
