------------------------------ MODULE AwConfig ------------------------------
(***************************************************************************)
(* C20: the effective configuration is the defaults overlaid by the user's *)
(* file.  A document is a tagged tree: [k:"table", v: Seq([key, val])]     *)
(* with distinct keys and leaves [k:"int"|"str"|"bool"|"float"|"array",   *)
(* s: canonical text of the value].  Key order is irrelevant.             *)
(***************************************************************************)
EXTENDS Integers, Sequences, FiniteSets, TLC

Tbl(entries) == [k |-> "table", v |-> entries]
Ent(key, val) == [key |-> key, val |-> val]
EmptyDoc == Tbl(<<>>)
KeysOf(t) == {t.v[i].key : i \in 1..Len(t.v)}
Get(t, key) == (CHOOSE i \in 1..Len(t.v) : t.v[i].key = key)
Val(t, key) == t.v[Get(t, key)].val
IsTable(x) == x.k = "table"

\* equality of documents up to key order
RECURSIVE DocEq(_, _)
DocEq(a, b) == IF IsTable(a) /\ IsTable(b)
               THEN KeysOf(a) = KeysOf(b) /\ Len(a.v) = Len(b.v) /\ \A key \in KeysOf(a) : DocEq(Val(a, key), Val(b, key))
               ELSE a = b

\* at every nesting level: the user's value for each key the user sets, the default for every key it does not,
\* keeping keys that only the user has
RECURSIVE Overlay(_, _)
Overlay(d, u) ==
  LET both == [i \in 1..Len(d.v) |->
                 LET key == d.v[i].key IN
                 IF key \in KeysOf(u)
                 THEN Ent(key, IF IsTable(d.v[i].val) /\ IsTable(Val(u, key)) THEN Overlay(d.v[i].val, Val(u, key)) ELSE Val(u, key))
                 ELSE d.v[i]]
      extra == SelectSeq(u.v, LAMBDA e : e.key \notin KeysOf(d))
  IN Tbl(both \o extra)

\* the code's _merge(a, b): recursive, in place, "same leaf value -> keep a's"
RECURSIVE DesignMerge(_, _)
DesignMerge(a, b) ==
  LET step(acc, e) ==
        IF e.key \in KeysOf(acc)
        THEN LET i == Get(acc, e.key) IN
             IF IsTable(acc.v[i].val) /\ IsTable(e.val) THEN Tbl([acc.v EXCEPT ![i] = Ent(e.key, DesignMerge(acc.v[i].val, e.val))])
             ELSE IF acc.v[i].val = e.val THEN acc
             ELSE Tbl([acc.v EXCEPT ![i] = e])
        ELSE Tbl(Append(acc.v, e))
      RECURSIVE Fold(_, _)
      Fold(acc, rest) == IF rest = <<>> THEN acc ELSE Fold(step(acc, Head(rest)), Tail(rest))
  IN Fold(a, b.v)

\* recorded loads
LoadClause(r) ==
  IF r.out # "ok" THEN "load-raised"
  ELSE IF r.has_file
       THEN (IF ~DocEq(r.result, Overlay(r.d, r.u)) THEN "result-is-not-defaults-overlaid-by-user-file"
             ELSE IF ~r.file_same THEN "existing-user-file-altered" ELSE "none")
       ELSE (IF ~DocEq(r.result, r.d) THEN "first-load-does-not-return-the-defaults"
             ELSE IF ~r.file_written THEN "no-file-written-on-first-load"
             ELSE IF ~DocEq(r.later, r.d) THEN "later-load-of-the-written-file-differs-from-the-defaults"
             ELSE IF ~r.file_same THEN "written-file-altered-by-a-later-load" ELSE "none")
=============================================================================
