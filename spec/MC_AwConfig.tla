---------------------------- MODULE MC_AwConfig ----------------------------
(* Theorems of Overlay and agreement of the code's _merge (DesignMerge) with it, for all small documents. *)
EXTENDS AwConfig
CONSTANTS KeyNames, Leaves
VARIABLES d, u
Docs0 == {Tbl(<<>>)} \cup {Tbl(<<Ent(a, x)>>) : a \in KeyNames, x \in Leaves}
         \cup {t \in {Tbl(<<Ent(a, x), Ent(b, y)>>) : a \in KeyNames, b \in KeyNames, x \in Leaves, y \in Leaves} : t.v[1].key # t.v[2].key}
L1 == [k |-> "str", s |-> "l1"]
L2 == [k |-> "int", s |-> "2"]
LeavesQ == {L1, L2}
Inner == {Tbl(<<>>), Tbl(<<Ent("k1", L1)>>), Tbl(<<Ent("k2", L2)>>), Tbl(<<Ent("k1", L2), Ent("k2", L1)>>)}
Docs1 == Docs0 \cup {Tbl(<<Ent(a, t)>>) : a \in KeyNames, t \in Inner}
         \cup {w \in {Tbl(<<Ent(a, t), Ent(b, x)>>) : a \in KeyNames, b \in KeyNames, t \in Inner, x \in Leaves} : w.v[1].key # w.v[2].key}
         \cup {Tbl(<<Ent(a, Tbl(<<Ent(b, t)>>))>>) : a \in KeyNames, b \in KeyNames, t \in Inner}
Init == d \in Docs1 /\ u \in Docs1
Next == UNCHANGED <<d, u>>
Spec == Init /\ [][Next]_<<d, u>>
ThMergeIsOverlay == DocEq(DesignMerge(d, u), Overlay(d, u))
ThEmptyUser == DocEq(Overlay(d, EmptyDoc), d)
ThIdempotent == DocEq(Overlay(Overlay(d, u), u), Overlay(d, u))
ThUserWins == \A key \in KeysOf(u) : ~(IsTable(Val(u, key)) /\ key \in KeysOf(d) /\ IsTable(Val(d, key))) => Val(Overlay(d, u), key) = Val(u, key)
ThDefaultsKept == \A key \in KeysOf(d) \ KeysOf(u) : Val(Overlay(d, u), key) = Val(d, key)
=============================================================================
