---------------------------- MODULE MC_AwIntervals ----------------------------
(***************************************************************************)
(* Design layer of the interval transforms: transcriptions of the          *)
(* algorithms in aw_transform (the two-pointer sweep of                    *)
(* _intersecting_eventpairs with Timeslot.intersection, the sorted sweep   *)
(* of period_union, the pairwise walk of flood with neighbour mutation,    *)
(* the two-index merge of union_no_overlap), checked by TLC against the    *)
(* declarative relations of AwIntervals for every pair of small lists.     *)
(***************************************************************************)
EXTENDS AwIntervals, TLC

CONSTANTS TMax,      \* ticks 0..TMax
          DMax,      \* durations 0..DMax
          N,         \* at most N events per list
          Labels, Pulses

VARIABLES A, B, p, ph
vars == <<A, B, p, ph>>

\* ---- input enumeration: time-sorted lists without internal overlap (zero-length and touching allowed)
Ev(i, t, u, x) == [id |-> i, ts |-> t, dur |-> u, d |-> x]
RECURSIVE ListsUpTo(_)
ListsUpTo(n) ==
  IF n = 0 THEN {<<>>}
  ELSE LET prev == ListsUpTo(n - 1) IN
       prev \cup {Append(q, Ev(n, t, u, x)) : q \in {r \in prev : Len(r) = n - 1}, t \in 0..TMax, u \in 0..DMax, x \in Labels}
\* each event ends before (or exactly when) the next one starts: zero-length events sit in gaps or on edges
NoOverlapList(q) == /\ \A i \in 1..(Len(q) - 1) : End(q[i]) <= q[i+1].ts
                    /\ \A i \in 1..Len(q) : End(q[i]) <= TMax + 1
Lists == {q \in ListsUpTo(N) : NoOverlapList(q)}
DistinctTs(q) == \A i, j \in 1..Len(q) : i < j => q[i].ts # q[j].ts
Relabel(q, pre) == [k \in 1..Len(q) |-> [q[k] EXCEPT !.d = pre \o ToString(k)]]

\* ---- Timeslot (third-party) as used by the code
Slot(e) == [s |-> e.ts, e |-> End(e)]
NoSlot == [s |-> -1, e |-> -2]
Contains(a, b) == a.s <= b.s /\ b.e <= a.e
Inter(a, b) == IF Contains(a, b) THEN b
               ELSE IF a.s <= b.s /\ b.s < a.e THEN [s |-> b.s, e |-> a.e]
               ELSE IF a.s < b.e /\ b.e <= a.e THEN [s |-> a.s, e |-> b.e]
               ELSE IF Contains(b, a) THEN a
               ELSE NoSlot
WithSlot(e, sl) == [e EXCEPT !.ts = sl.s, !.dur = sl.e - sl.s]

\* ---- filter_period_intersect: _intersecting_eventpairs two-pointer sweep
RECURSIVE Sweep(_, _, _, _)
Sweep(X, Y, i, j) ==
  IF i > Len(X) \/ j > Len(Y) THEN <<>>
  ELSE LET p1 == Slot(X[i])
           p2 == Slot(Y[j])
           ip == Inter(p1, p2)
       IN IF ip # NoSlot
          THEN <<WithSlot(X[i], ip)>> \o (IF p1.e <= p2.e THEN Sweep(X, Y, i + 1, j) ELSE Sweep(X, Y, i, j + 1))
          ELSE IF p1.e <= p2.s THEN Sweep(X, Y, i + 1, j)
          ELSE IF p2.e <= p1.s THEN Sweep(X, Y, i, j + 1)
          ELSE Sweep(X, Y, i + 1, j + 1)
DesignIntersect(X, Y) == Sweep(X, Y, 1, 1)

\* ---- period_union: sort by start, merge when there is no gap
RECURSIVE Merge2(_, _)                     \* merge two time-sorted sequences (stable, first list first)
Merge2(X, Y) == IF X = <<>> THEN Y ELSE IF Y = <<>> THEN X
                ELSE IF X[1].ts <= Y[1].ts THEN <<X[1]>> \o Merge2(Tail(X), Y) ELSE <<Y[1]>> \o Merge2(X, Tail(Y))
RECURSIVE UnionFold(_, _)
UnionFold(acc, rest) ==
  IF rest = <<>> THEN acc
  ELSE LET e == Head(rest)
           le == acc[Len(acc)]
           gap == End(le) < e.ts \/ End(e) < le.ts
       IN IF ~gap THEN UnionFold([acc EXCEPT ![Len(acc)] = [le EXCEPT !.ts = Min2(le.ts, e.ts), !.dur = Max2(End(le), End(e)) - Min2(le.ts, e.ts)]], Tail(rest))
          ELSE UnionFold(Append(acc, e), Tail(rest))
DesignUnion(X, Y) == LET all == Merge2(X, Y)
                         m == IF all = <<>> THEN <<>> ELSE UnionFold(<<Head(all)>>, Tail(all))
                     IN [k \in 1..Len(m) |-> [m[k] EXCEPT !.d = "empty"]]

\* ---- flood: pairwise walk with neighbour mutation (inputs without overlap: gaps are never negative)
RECURSIVE Walk(_, _, _)
Walk(q, k, P) ==
  IF k >= Len(q) THEN q
  ELSE LET e1 == q[k]
           e2 == q[k+1]
           gap == e2.ts - End(e1)
           e2end == End(e2)
       IN IF gap = 0 \/ gap > P THEN Walk(q, k + 1, P)
          ELSE IF e1.dur >= e2.dur
               THEN IF e1.d = e2.d
                    THEN Walk([q EXCEPT ![k] = [e1 EXCEPT !.dur = e2end - e1.ts], ![k+1] = [e2 EXCEPT !.ts = e2end, !.dur = 0]], k + 1, P)
                    ELSE Walk([q EXCEPT ![k] = [e1 EXCEPT !.dur = e2.ts - e1.ts]], k + 1, P)
               ELSE IF e1.d = e2.d
                    THEN Walk([q EXCEPT ![k] = [e1 EXCEPT !.dur = 0], ![k+1] = [e2 EXCEPT !.ts = e1.ts, !.dur = e2end - e1.ts]], k + 1, P)
                    ELSE Walk([q EXCEPT ![k+1] = [e2 EXCEPT !.ts = End(e1), !.dur = e2end - End(e1)]], k + 1, P)
DesignFlood(q, P) == SelectSeq(Walk(q, 1, P), LAMBDA e : e.dur > 0)

\* ---- union_no_overlap (repaired loop body: five relative positions, two-index merge, _split_event)
RECURSIVE UNO(_, _)
UNO(X, Y) ==
  IF X = <<>> THEN Y ELSE IF Y = <<>> THEN X
  ELSE LET e1 == X[1]
           e2 == Y[1]
       IN IF End(e2) <= e1.ts THEN <<e2>> \o UNO(X, Tail(Y))                              \* e2 entirely before e1
          ELSE IF End(e1) <= e2.ts THEN <<e1>> \o UNO(Tail(X), Y)                         \* e1 entirely before e2
          ELSE IF e2.ts < e1.ts                                                            \* head of e2 sticks out
               THEN <<[e2 EXCEPT !.dur = e1.ts - e2.ts]>> \o UNO(X, <<[e2 EXCEPT !.ts = e1.ts, !.dur = End(e2) - e1.ts]>> \o Tail(Y))
          ELSE IF End(e2) <= End(e1) THEN UNO(X, Tail(Y))                                  \* e2 covered by e1
          ELSE <<e1>> \o UNO(Tail(X), <<[e2 EXCEPT !.ts = End(e1), !.dur = End(e2) - End(e1)]>> \o Tail(Y))   \* tail sticks out
DesignUNO(X, Y) == UNO(X, Y)

\* two phases so that TLC's workers share the enumeration of the second list
Init == A \in Lists /\ B = <<>> /\ p = 0 /\ ph = 0
Next == ph = 0 /\ ph' = 1 /\ B' \in Lists /\ p' \in Pulses /\ UNCHANGED A
Spec == Init /\ [][Next]_vars

LA == Relabel(A, "a")
LB == Relabel(B, "b")
DesignIntersectOK == IntersectClause(A, B, DesignIntersect(A, B), A, B) = "none"
DesignUnionOK     == UnionClause(A, B, DesignUnion(A, B)) = "none"
DesignFloodOK     == DistinctTs(A) => FloodClause(A, p, DesignFlood(A, p), A) = "none"
DesignUNOOK       == UnionNoOverlapClause(LA, LB, DesignUNO(LA, LB), LA, LB) = "none"
=============================================================================
