---------------------------- MODULE AwDatastoreDesign ----------------------------
(***************************************************************************)
(* Design layer of the Datastore wrapper (aw_datastore/datastore.py), the  *)
(* part of the bucket lifecycle (C05) that sits above every backend: the   *)
(* cache bucket_instances of handle objects in front of the storage's      *)
(* bucket table.  __getitem__ answers from the cache before it asks the    *)
(* storage, so the cache must never name a bucket the storage does not     *)
(* have.  One action per method, with the statements in the order the code *)
(* runs them (delete_bucket drops the cached handle BEFORE it calls the    *)
(* storage, which may raise).  TLC checks that a lookup raises KeyError    *)
(* exactly when the bucket does not exist, whatever the history of         *)
(* creations, deletions, failed calls, re-creations and new wrapper        *)
(* objects over the same storage.  Knobs give the negative controls.       *)
(* The effect of each method is a function Eff of the state, so that the   *)
(* trace judge (AwDatastoreTrace) evaluates the very same text on states   *)
(* observed in the real wrapper, and TLC's full state graph of this module *)
(* is replayed edge by edge on the real code.                              *)
(***************************************************************************)
EXTENDS Integers, FiniteSets, TLC

CONSTANTS BucketNames,
          DropHandleOnDelete,     \* TRUE: delete_bucket removes the cached handle (as the code does)
          LookupAsksStorage       \* TRUE: a cache miss consults storage.buckets() (as the code does); FALSE: builds a handle blindly

VARIABLES stored,    \* the storage's bucket table (set of names)
          inst,      \* Datastore.bucket_instances (set of names with a cached handle)
          out        \* what the last call did: [op, b, res]  res in {"handle", "ok", "KeyError", "raise"}
vars == <<stored, inst, out>>

\* effect of one method call on (S, I) = (bucket table, handle cache): [s, i, res]
Eff(op, b, S, I) ==
  CASE op = "create" ->
         IF b \in S THEN [s |-> S, i |-> I, res |-> "raise"]        \* the storage refuses the duplicate; self[bucket_id] is not reached
         ELSE [s |-> S \cup {b}, i |-> I \cup {b}, res |-> "handle"]  \* storage.create_bucket, then return self[bucket_id]
    [] op = "delete" ->
         LET I2 == IF DropHandleOnDelete THEN I \ {b} ELSE I IN      \* first statement of delete_bucket
         IF b \in S THEN [s |-> S \ {b}, i |-> I2, res |-> "ok"] ELSE [s |-> S, i |-> I2, res |-> "raise"]
    [] op = "lookup" ->
         IF b \in I THEN [s |-> S, i |-> I, res |-> "handle"]
         ELSE IF ~LookupAsksStorage \/ b \in S THEN [s |-> S, i |-> I \cup {b}, res |-> "handle"]
         ELSE [s |-> S, i |-> I, res |-> "KeyError"]
    [] op = "update" -> [s |-> S, i |-> I, res |-> IF b \in S THEN "ok" ELSE "raise"]   \* straight to the storage
    [] op = "reopen" -> [s |-> S, i |-> {}, res |-> "ok"]            \* a new Datastore object over the same storage
Methods == {"create", "delete", "lookup", "update", "reopen"}

Call(op, b) == LET e == Eff(op, b, stored, inst) IN
               stored' = e.s /\ inst' = e.i /\ out' = [op |-> op, b |-> b, res |-> e.res]
Init == stored = {} /\ inst = {} /\ out = [op |-> "init", b |-> "-", res |-> "ok"]
Next == \E op \in Methods, b \in BucketNames : Call(op, b)
Spec == Init /\ [][Next]_vars

\* the cache never names a bucket the storage does not have
CacheSound == inst \subseteq stored
\* C05 on the design: lookup of an id raises KeyError exactly when no such bucket exists; a successful create hands out a handle
LookupOK == [][out'.op = "lookup" => (out'.res = "handle" <=> out'.b \in stored)]_vars
CreateOK == [][out'.op = "create" => (out'.res = "handle" <=> out'.b \notin stored) /\ (out'.res = "handle" => out'.b \in stored')]_vars
\* failed calls change nothing that a later call can see
FailedCallsChangeNothing == [][out'.res \in {"raise", "KeyError"} => stored' = stored /\ (inst' \cap stored') = (inst \cap stored)]_vars
=============================================================================
