---------------------------- MODULE AwDatastoreDesign ----------------------------
(***************************************************************************)
(* Design layer of the Datastore wrapper (aw_datastore/datastore.py), the  *)
(* part of the bucket lifecycle (C05) that sits above every backend: the   *)
(* cache bucket_instances of handle objects in front of the storage's      *)
(* bucket table.  __getitem__ answers from the cache before it asks the    *)
(* storage, so the cache must never name a bucket the storage does not     *)
(* have.  One action per method, with the statements in the order the code *)
(* runs them (delete_bucket drops the cached handle BEFORE it calls the    *)
(* storage, which may raise).  TLC checks that a lookup raises KeyError    *)
(* exactly when the bucket does not exist, whatever the history of         *)
(* creations, deletions, failed calls and re-creations.  Knobs give the    *)
(* negative controls.                                                      *)
(***************************************************************************)
EXTENDS Integers, FiniteSets, TLC

CONSTANTS BucketNames,
          DropHandleOnDelete,     \* TRUE: delete_bucket removes the cached handle (as the code does)
          LookupAsksStorage       \* TRUE: a cache miss consults storage.buckets() (as the code does); FALSE: builds a handle blindly

VARIABLES stored,    \* the storage's bucket table (set of names)
          inst,      \* Datastore.bucket_instances (set of names with a cached handle)
          out        \* what the last call did: [op, b, res]  res in {"handle", "ok", "KeyError", "raise"}
vars == <<stored, inst, out>>

Create(b) ==
  IF b \in stored
  THEN \* the storage refuses the duplicate (sqlite / peewee: UNIQUE constraint); self[bucket_id] is not reached
       /\ UNCHANGED <<stored, inst>> /\ out' = [op |-> "create", b |-> b, res |-> "raise"]
  ELSE /\ stored' = stored \cup {b}
       /\ inst' = inst \cup {b}                                  \* return self[bucket_id]
       /\ out' = [op |-> "create", b |-> b, res |-> "handle"]
Delete(b) ==
  /\ inst' = IF DropHandleOnDelete THEN inst \ {b} ELSE inst     \* first statement of delete_bucket
  /\ IF b \in stored THEN stored' = stored \ {b} /\ out' = [op |-> "delete", b |-> b, res |-> "ok"]
     ELSE UNCHANGED stored /\ out' = [op |-> "delete", b |-> b, res |-> "raise"]       \* ValueError from the storage
Lookup(b) ==
  /\ UNCHANGED stored
  /\ IF b \in inst THEN UNCHANGED inst /\ out' = [op |-> "lookup", b |-> b, res |-> "handle"]
     ELSE IF ~LookupAsksStorage \/ b \in stored THEN inst' = inst \cup {b} /\ out' = [op |-> "lookup", b |-> b, res |-> "handle"]
     ELSE UNCHANGED inst /\ out' = [op |-> "lookup", b |-> b, res |-> "KeyError"]
\* update_bucket and the listing go straight to the storage: no cache involved
Update(b) == UNCHANGED <<stored, inst>> /\ out' = [op |-> "update", b |-> b, res |-> IF b \in stored THEN "ok" ELSE "raise"]

Init == stored = {} /\ inst = {} /\ out = [op |-> "init", b |-> "-", res |-> "ok"]
Next == \E b \in BucketNames : Create(b) \/ Delete(b) \/ Lookup(b) \/ Update(b)
Spec == Init /\ [][Next]_vars

\* the cache never names a bucket the storage does not have
CacheSound == inst \subseteq stored
\* C05 on the design: lookup of an id raises KeyError exactly when no such bucket exists; a successful create hands out a handle
LookupOK == [][out'.op = "lookup" => (out'.res = "handle" <=> out'.b \in stored)]_vars
CreateOK == [][out'.op = "create" => (out'.res = "handle" <=> out'.b \notin stored) /\ (out'.res = "handle" => out'.b \in stored')]_vars
\* failed calls change nothing that a later call can see
FailedCallsChangeNothing == [][out'.res \in {"raise", "KeyError"} => stored' = stored /\ (inst' \cap stored') = (inst \cap stored)]_vars
=============================================================================
