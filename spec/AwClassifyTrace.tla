---------------------------- MODULE AwClassifyTrace ----------------------------
(* Judge for C19: recorded calls of categorize, tag, split_url_events, simplify_string. *)
EXTENDS AwClassify, TLC, TLCExt, Json, IOUtils

Traces == JsonDeserialize(IOEnv.TRACE_FILE)
VARIABLES tid, l
vars == <<tid, l>>
T == Traces[tid]
R == T[l]
Clause(r) ==
  CASE r.op = "categorize" -> CategorizeClause(r.inp, r.classes, r.out)
    [] r.op = "tag"        -> TagClause(r.inp, r.classes, r.out)
    [] r.op = "frame"      -> FrameClause(r.inp, r.out, SeqSet(r.added))
    [] r.op = "raised"     -> "transform-raised"
    [] OTHER               -> "unknown-record"
Init == tid \in 1..Len(Traces) /\ l = 1
Next == l <= Len(T) /\ l' = l + 1 /\ UNCHANGED tid
Spec == Init /\ [][Next]_vars
Verdict ==
  IF l > Len(T) THEN PrintT(<<"ACCEPT", tid>>)
  ELSE IF Clause(R) # "none" THEN PrintT(<<"REJECT", tid, l, R.op, Clause(R)>>)
  ELSE TRUE
=============================================================================
