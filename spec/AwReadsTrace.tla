---------------------------- MODULE AwReadsTrace ----------------------------
(* Trace judge for C03: every recorded get(limit, start, end) and get_eventcount(start, end) of the  *)
(* real Bucket must be admissible for the bucket contents recorded at the start of the trace.        *)
EXTENDS AwReads, TLC, TLCExt, Json, IOUtils

Traces == JsonDeserialize(IOEnv.TRACE_FILE)
VARIABLES evs, tid, l
vars == <<evs, tid, l>>
T == Traces[tid]
R == T[l]

Clause(r) ==
  CASE r.op = "load"  -> IF \A x, y \in SeqSet(r.evs) : x.id = y.id => x = y THEN "none" ELSE "duplicate-ids-in-listing"
    [] r.op = "get"   -> ReadClause(evs, r.res, r.lim, r.w)
    [] r.op = "count" -> IF CountAdmissible(evs, r.n, r.w) THEN "none" ELSE "count-disagrees-with-window"
    [] r.op = "raised" -> "read-raised"
    [] OTHER          -> "unknown-record"

Init == tid \in 1..Len(Traces) /\ l = 1 /\ evs = {}
Next == /\ l <= Len(T)
        /\ evs' = IF R.op = "load" THEN SeqSet(R.evs) ELSE evs
        /\ l' = l + 1 /\ UNCHANGED tid
Spec == Init /\ [][Next]_vars

Verdict ==
  IF l > Len(T) THEN PrintT(<<"ACCEPT", tid>>)
  ELSE IF Clause(R) # "none" THEN PrintT(<<"REJECT", tid, l, R.op, Clause(R)>>)
  ELSE TRUE
=============================================================================
