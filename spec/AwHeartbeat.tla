---------------------------- MODULE AwHeartbeat ----------------------------
(***************************************************************************)
(* Heartbeats (C07, C08).  Times are integer ticks; the pulsetime P is in  *)
(* the same unit (the bounded model uses half-ticks so that fractional     *)
(* pulsetimes exist).  An event is [ts, dur, d] (dur may be negative).     *)
(***************************************************************************)
EXTENDS Integers, Sequences, FiniteSets, TLC

End(e) == e.ts + e.dur
Max2(a, b) == IF a > b THEN a ELSE b

\* C08: two events merge iff data equal, the second starts inside [first.ts, first.end + P], first.dur >= 0
Mergeable(e1, e2, P) == /\ e1.d = e2.d
                        /\ e1.ts <= e2.ts /\ e2.ts <= End(e1) + P
                        /\ e1.dur >= 0
\* the merged event keeps the first's start and data and ends at the later of the two ends
Merged(e1, e2) == [ts |-> e1.ts, dur |-> Max2(e1.dur, (e2.ts - e1.ts) + e2.dur), d |-> e1.d]

\* heartbeat_reduce = left fold of the merge rule
RECURSIVE ReduceFrom(_, _, _)
ReduceFrom(acc, rest, P) ==
  IF rest = <<>> THEN acc
  ELSE LET h == Head(rest)
           lst == acc[Len(acc)]
       IN IF Mergeable(lst, h, P)
          THEN ReduceFrom([acc EXCEPT ![Len(acc)] = Merged(lst, h)], Tail(rest), P)
          ELSE ReduceFrom(Append(acc, h), Tail(rest), P)
Reduce(s, P) == IF s = <<>> THEN <<>> ELSE ReduceFrom(<<Head(s)>>, Tail(s), P)

\* ---- theorems of the rule (checked by TLC for every small list, see MC_AwHeartbeat) ----
NormalForm(out, P) == \A k \in 1..(Len(out) - 1) : ~Mergeable(out[k], out[k+1], P)
NeverShortens(e1, e2, P) == Mergeable(e1, e2, P) =>
     LET m == Merged(e1, e2) IN m.ts = e1.ts /\ m.d = e1.d /\ End(m) >= End(e1) /\ End(m) >= End(e2) /\ End(m) = Max2(End(e1), End(e2))
Covers(s, out) == \A i \in 1..Len(s) : s[i].dur >= 0 =>
     \E k \in 1..Len(out) : out[k].d = s[i].d /\ out[k].ts <= s[i].ts /\ End(s[i]) <= End(out[k])

\* ---- C07: the ingestion loop through the store ----
\* a heartbeat stream: strictly increasing timestamps, non-decreasing ends, non-negative durations
IsStream(s) == /\ \A i \in 1..Len(s) : s[i].dur >= 0
               /\ \A i \in 1..(Len(s) - 1) : s[i].ts < s[i+1].ts /\ End(s[i]) <= End(s[i+1])
=============================================================================
