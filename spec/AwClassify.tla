------------------------------ MODULE AwClassify ------------------------------
(***************************************************************************)
(* Annotating transforms (C19).  A data value is abstract:                 *)
(*   [k |-> "str", toks |-> set of [t, c]]  a string made of tokens t in   *)
(*                                          case c ("l" / "u")              *)
(*   [k |-> "int"], [k |-> "null"], [k |-> "list"]   non-string values     *)
(* A rule is [rx |-> [t, c, t2, opt] (t = "" : no / empty regex; t2 # "" : *)
(* two adjacent tokens; opt : the token is optional), ic |-> BOOLEAN,      *)
(* hs |-> BOOLEAN (has select_keys), sk |-> sequence of keys].             *)
(* The regex engine itself is not modelled: a regex is one literal token.  *)
(***************************************************************************)
EXTENDS Integers, Sequences, FiniteSets

SeqSet(sq) == {sq[i] : i \in 1..Len(sq)}
Keys(e) == DOMAIN e.data \ {"_"}
IsStr(v) == v.k = "str"
\* the regex (a literal token) is found in the string, case-insensitively if asked
\* rx.t2 # "": the regex is  <t> whitespace <t2>  - the two tokens adjacent, in this order, inside this one value
TokMatch(w, t, c, ic) == w.t = t /\ (ic \/ w.c = c)
\* rx.opt: the regex is  (<t>)?  - it is found in every string, the empty one included
\* rx.sp: blanks in the regex are part of it - "only": the regex is one blank (found wherever two tokens meet);
\* "trail" / "lead": the token followed / preceded by a blank (the token is not the last / not the first of the value)
Contains(v, rx, ic) == IF rx.opt THEN TRUE
                       ELSE IF rx.sp = "only" THEN Len(v.toks) >= 2
                       ELSE IF rx.sp = "trail" THEN \E i \in 1..(Len(v.toks) - 1) : TokMatch(v.toks[i], rx.t, rx.c, ic)
                       ELSE IF rx.sp = "lead" THEN \E i \in 2..Len(v.toks) : TokMatch(v.toks[i], rx.t, rx.c, ic)
                       ELSE IF rx.t2 = "" THEN \E w \in SeqSet(v.toks) : TokMatch(w, rx.t, rx.c, ic)
                       ELSE \E i \in 1..(Len(v.toks) - 1) : TokMatch(v.toks[i], rx.t, rx.c, ic) /\ TokMatch(v.toks[i + 1], rx.t2, rx.c, ic)
Selected(rule, e) == IF rule.hs /\ rule.sk # <<>>
                     THEN {e.data[k] : k \in SeqSet(rule.sk) \cap Keys(e)}      \* missing keys select nothing
                     ELSE {e.data[k] : k \in Keys(e)}
Matches(rule, e) == (rule.rx.t # "" \/ rule.rx.sp = "only") /\ \E v \in Selected(rule, e) : IsStr(v) /\ Contains(v, rule.rx, rule.ic)

\* categorize: the deepest matching category, the later rule wins ties, Uncategorized when nothing matches
Uncategorized == <<"Uncategorized">>
MatchIdx(classes, e) == {i \in 1..Len(classes) : Matches(classes[i].rule, e)}
CategoryOf(classes, e) ==
  LET M == MatchIdx(classes, e) IN
  IF M = {} THEN Uncategorized
  ELSE LET deepest == {i \in M : \A j \in M : Len(classes[j].cls) <= Len(classes[i].cls)}
           win == CHOOSE i \in deepest : \A j \in deepest : j <= i
       IN classes[win].cls
\* tag: exactly the matching tags, in rule order
TagsOf(classes, e) == LET idx == SelectSeq([i \in 1..Len(classes) |-> i], LAMBDA i : Matches(classes[i].rule, e))
                      IN [k \in 1..Len(idx) |-> classes[idx[k]].cls]

\* frame: same events in the same order, timestamps, durations and every other key unchanged
FrameClause(In, Out, added) ==
  IF Len(Out) # Len(In) THEN "number-of-events-changed"
  ELSE IF \E k \in 1..Len(In) : Out[k].ts # In[k].ts \/ Out[k].dur # In[k].dur THEN "timestamp-or-duration-changed"
  ELSE IF \E k \in 1..Len(In) : \E key \in Keys(In[k]) \ added : key \notin Keys(Out[k]) \/ Out[k].data[key] # In[k].data[key]
       THEN "unrelated-data-changed"
  ELSE IF \E k \in 1..Len(In) : ~(Keys(Out[k]) \subseteq Keys(In[k]) \cup added) THEN "unexpected-key-added"
  ELSE "none"

CategorizeClause(In, classes, Out) ==
  IF FrameClause(In, Out, {"$category"}) # "none" THEN FrameClause(In, Out, {"$category"})
  ELSE IF \E k \in 1..Len(In) : Out[k].cat # CategoryOf(classes, In[k]) THEN "category-is-not-the-deepest-latest-match"
  ELSE "none"
TagClause(In, classes, Out) ==
  IF FrameClause(In, Out, {"$tags"}) # "none" THEN FrameClause(In, Out, {"$tags"})
  ELSE IF \E k \in 1..Len(In) : Out[k].tags # TagsOf(classes, In[k]) THEN "tags-are-not-the-matching-tags-in-rule-order"
  ELSE "none"
=============================================================================
