---------------------------- MODULE AwConfigTrace ----------------------------
EXTENDS AwConfig, TLCExt, Json, IOUtils
Traces == JsonDeserialize(IOEnv.TRACE_FILE)
VARIABLES tid, l
vars == <<tid, l>>
T == Traces[tid]
R == T[l]
Init == tid \in 1..Len(Traces) /\ l = 1
Next == l <= Len(T) /\ l' = l + 1 /\ UNCHANGED tid
Spec == Init /\ [][Next]_vars
Verdict ==
  IF l > Len(T) THEN PrintT(<<"ACCEPT", tid>>)
  ELSE IF LoadClause(R) # "none" THEN PrintT(<<"REJECT", tid, l, IF R.has_file THEN "with-file" ELSE "first-run", LoadClause(R)>>)
  ELSE TRUE
=============================================================================
