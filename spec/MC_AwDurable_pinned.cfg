CONSTANTS
  Threshold = 50
  AgeLimit = 10
  DeletesCounted = FALSE
  AgeTestReversed = TRUE
  MaxBuffered = 64
  AgeMust = 15
  BulkSizes = {2, 30, 49, 51}
  TickSizes = {1, 9, 15}
  MaxIssued = 170
  MaxTime = 40
SPECIFICATION Spec
CONSTRAINT Bound
INVARIANT BufferedBounded
INVARIANT BucketOpsDurable
INVARIANT AgeBound
INVARIANT CounterExact
PROPERTY DurableMonotone
