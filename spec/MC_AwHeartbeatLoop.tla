---------------------------- MODULE MC_AwHeartbeatLoop ----------------------------
(* C07 on the specification: the ingestion loop, built from AwStore's step relation, leaves exactly the *)
(* events heartbeat_reduce computes, and never touches an earlier event or the spectator bucket.        *)
EXTENDS AwStore, Sequences

CONSTANTS Tk, Du, Ps, MaxLen
HB == INSTANCE AwHeartbeat

VARIABLES stream, p, i
lvars == <<bk, stream, p, i>>

Evs0 == [ts : Tk, dur : Du, d : Datas]
RECURSIVE StreamsUpTo(_)
StreamsUpTo(n) == IF n = 0 THEN {<<>>}
                  ELSE LET prev == StreamsUpTo(n - 1)
                       IN prev \cup {t \in {Append(q, x) : q \in {r \in prev : Len(r) = n - 1}, x \in Evs0} : HB!IsStream(t)}
Streams == StreamsUpTo(MaxLen)

Spectator == [ex |-> TRUE, type |-> "s1", client |-> "s1", host |-> "s1", name |-> "s1", data |-> "m0", created |-> 0,
              evs |-> {Event(0, 0, 1, "d1"), Event(1, 1, 1, "d2")}]
Fresh == [ex |-> TRUE, type |-> "s1", client |-> "s1", host |-> "s1", name |-> "s1", data |-> "m0", created |-> 0, evs |-> {}]
LInit == /\ stream \in Streams /\ p \in Ps /\ i = 1
         /\ bk = [b \in Buckets |-> IF b = "A" THEN Fresh ELSE Spectator]
Val(e) == [ts |-> e.ts, dur |-> e.dur, d |-> e.d]
NextId == IF bk["A"].evs = {} THEN 0 ELSE (CHOOSE m \in LiveIds(bk, "A") : \A y \in LiveIds(bk, "A") : y <= m) + 1
LNext ==
  /\ i <= Len(stream)
  /\ LET h == stream[i] IN
     IF bk["A"].evs = {}
     THEN Step([op |-> "insert", b |-> "A", ev |-> Event(NextId, h.ts, h.dur, h.d)])
     ELSE \E x \in Newest(bk, "A") :                      \* what the limit-1 read returns
            IF HB!Mergeable(Val(x), h, p)
            THEN LET m == HB!Merged(Val(x), h) IN Step([op |-> "replace_last", b |-> "A", ev |-> Event(x.id, m.ts, m.dur, m.d)])
            ELSE Step([op |-> "insert", b |-> "A", ev |-> Event(NextId, h.ts, h.dur, h.d)])
  /\ i' = i + 1 /\ UNCHANGED <<stream, p>>
LSpec == LInit /\ [][LNext]_lvars

SeqVals(s) == {s[k] : k \in 1..Len(s)}
LoopEqualsReduce == i > Len(stream) =>
    /\ {Val(e) : e \in bk["A"].evs} = SeqVals(HB!Reduce(stream, p))
    /\ Cardinality(bk["A"].evs) = Len(HB!Reduce(stream, p))
SpectatorUntouched == bk["B"] = Spectator
\* no earlier event is ever altered or lost by a later heartbeat: only the newest event may change
EarlierUntouched == [][\A e \in bk["A"].evs : (e \notin Newest(bk, "A")) => e \in bk'["A"].evs]_lvars
=============================================================================
