---------------------------- MODULE AwStoreEdges ----------------------------
(* Edge printer for the bounded instances of AwStore: TLC explores the instance exhaustively (one state per store       *)
(* content: VIEW bk) and writes every transition out as one JSON line - the source state and the operation.  The        *)
(* harness builds the source state on the real backends, issues the operation and AwStoreTrace judges the recorded      *)
(* step: one implementation test per transition of the model, in addition to the sampled behaviours of AwStoreGen.      *)
EXTENDS MC_AwStore, TLCExt, Json
VARIABLE last
evars == <<bk, last>>
EInit == bk = [b \in Buckets |-> None] /\ last = [op |-> "init"]
ENext == \E o \in Ops(bk) : Step(o) /\ Bounded(bk') /\ last' = o
ESpec == EInit /\ [][ENext]_evars
EView == bk
PrintEdge == PrintT(<<"EDGE", ToJson([s |-> bk, o |-> last'])>>)
=============================================================================
