---------------------------- MODULE AwQueryStoreTrace ----------------------------
(***************************************************************************)
(* Judge for C12: queries only read.                                       *)
(*  query : full dump of all buckets (metadata and events) before and      *)
(*          after aw_query.query ran a program (successful or failing):    *)
(*          Query is an action with UNCHANGED buckets.                     *)
(*  qb    : bucket contents, query window, the result of                   *)
(*          RETURN = query_bucket(b) and of a direct windowed read of b    *)
(*          over the same instants, and the two counts: the query result   *)
(*          is an admissible read for the window (AwReads) and equals the  *)
(*          direct read; likewise the counts.                              *)
(***************************************************************************)
EXTENDS AwReads, TLC, TLCExt, Json, IOUtils

Traces == JsonDeserialize(IOEnv.TRACE_FILE)
VARIABLES tid, l
vars == <<tid, l>>
T == Traces[tid]
R == T[l]

\* every query_bucket call made by the program returned what a direct windowed read returns at that moment
QueryClause(r) == IF r.post # r.pre THEN "bucket-data-changed-by-query"
                  ELSE IF \E k \in 1..Len(r.reads) : r.reads[k].got # r.reads[k].direct THEN "query_bucket-differs-from-direct-windowed-read"
                  ELSE "none"
QbClause(r) ==
  LET evs == SeqSet(r.evs) IN
  IF ReadClause(evs, r.res, 0 - 1, r.w) # "none" THEN ReadClause(evs, r.res, 0 - 1, r.w)
  ELSE IF r.res # r.direct THEN "query_bucket-differs-from-direct-windowed-read"
  ELSE IF ~CountAdmissible(evs, r.n, r.w) THEN "count-disagrees-with-window"
  ELSE IF r.n # r.ndirect THEN "query_bucket_eventcount-differs-from-direct-count"
  ELSE "none"
Clause(r) == CASE r.op = "query" -> QueryClause(r) [] r.op = "qb" -> QbClause(r) [] OTHER -> "unknown-record"
Init == tid \in 1..Len(Traces) /\ l = 1
Next == l <= Len(T) /\ l' = l + 1 /\ UNCHANGED tid
Spec == Init /\ [][Next]_vars
Verdict ==
  IF l > Len(T) THEN PrintT(<<"ACCEPT", tid>>)
  ELSE IF Clause(R) # "none" THEN PrintT(<<"REJECT", tid, l, R.op, Clause(R)>>)
  ELSE TRUE
=============================================================================
