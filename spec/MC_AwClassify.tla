---------------------------- MODULE MC_AwClassify ----------------------------
(* Design layer for C19: Rule.match and the reduce(_pick_deepest_cat) fold transcribed, checked against *)
(* CategoryOf / TagsOf for every small rule list and event.                                             *)
EXTENDS AwClassify, TLC

CONSTANTS Toks, Cats, MaxRules, GeTie       \* GeTie: the fold uses >= (later wins ties); FALSE = the '>' mutant
VARIABLES ev, classes, ph
vars == <<ev, classes, ph>>

Tok == [t : Toks, c : {"l", "u"}]
StrVals == {[k |-> "str", toks |-> <<a>>] : a \in Tok} \cup {[k |-> "str", toks |-> <<a, b>>] : a \in Tok, b \in Tok}
Values == StrVals \cup {[k |-> "int"]}
EvData == {[x \in {"_", "k1"} |-> IF x = "_" THEN [k |-> "null"] ELSE v] : v \in Values}
          \cup {[x \in {"_", "k1", "k2"} |-> IF x = "_" THEN [k |-> "null"] ELSE IF x = "k1" THEN v ELSE w] : v \in {[k |-> "str", toks |-> <<a>>] : a \in Tok}, w \in {[k |-> "str", toks |-> <<a>>] : a \in Tok} \cup {[k |-> "int"]}}
Rx == {[t |-> a.t, c |-> a.c, t2 |-> "", opt |-> FALSE, sp |-> ""] : a \in Tok} \cup {[t |-> "", c |-> "l", t2 |-> "", opt |-> FALSE, sp |-> ""]} \cup {[t |-> "t1", c |-> "l", t2 |-> "t2", opt |-> FALSE, sp |-> ""]}
      \cup {[t |-> "t1", c |-> "l", t2 |-> "", opt |-> TRUE, sp |-> ""]}
      \cup {[t |-> "", c |-> "l", t2 |-> "", opt |-> FALSE, sp |-> "only"], [t |-> "t1", c |-> "l", t2 |-> "", opt |-> FALSE, sp |-> "trail"]}
\* hs (select_keys given) and sk vary together, plus the two mixed cases (given but empty; not given) once each
RxOne == [t |-> "t1", c |-> "l", t2 |-> "", opt |-> FALSE, sp |-> ""]
Rules == [rx : Rx, ic : BOOLEAN, hs : {TRUE}, sk : {<<"k2">>, <<"k9", "k1">>}] \cup [rx : Rx, ic : BOOLEAN, hs : {FALSE}, sk : {<<>>}]
         \cup [rx : {RxOne}, ic : {FALSE}, hs : {TRUE}, sk : {<<>>}] \cup [rx : {RxOne}, ic : {FALSE}, hs : {FALSE}, sk : {<<"k2">>}]
Classes == [cls : Cats, rule : Rules]
RECURSIVE SeqsUpTo(_, _)
SeqsUpTo(S, n) == IF n = 0 THEN {<<>>} ELSE SeqsUpTo(S, n - 1) \cup {Append(q, x) : q \in {r \in SeqsUpTo(S, n - 1) : Len(r) = n - 1}, x \in S}

\* transcription of Rule.match
DValues(rule, e) == IF rule.hs /\ rule.sk # <<>>
                    THEN [i \in 1..Len(rule.sk) |-> IF rule.sk[i] \in Keys(e) THEN e.data[rule.sk[i]] ELSE [k |-> "null"]]
                    ELSE LET ks == Keys(e) IN IF ks = {} THEN <<>> ELSE
                         LET sq == CHOOSE sq \in [1..Cardinality(ks) -> ks] : \A i, j \in 1..Cardinality(ks) : i # j => sq[i] # sq[j]
                         IN [i \in 1..Cardinality(ks) |-> e.data[sq[i]]]
\* `if regex_str` in Rule.__init__: the regex text is tested as it was given - a regex made of blanks is not empty
RegexGiven(rx) == rx.t # "" \/ rx.sp = "only"
DMatch(rule, e) == IF ~RegexGiven(rule.rx) THEN FALSE
                   ELSE \E i \in 1..Len(DValues(rule, e)) : LET v == DValues(rule, e)[i] IN IsStr(v) /\ Contains(v, rule.rx, rule.ic)
\* transcription of reduce(_pick_deepest_cat, matching, ["Uncategorized"])
RECURSIVE Fold(_, _)
Fold(acc, rest) == IF rest = <<>> THEN acc
                   ELSE LET t2 == Head(rest) IN
                        Fold(IF (IF GeTie THEN Len(t2) >= Len(acc) ELSE Len(t2) > Len(acc)) THEN t2 ELSE acc, Tail(rest))
DMatching(cs, e) == LET idx == SelectSeq([i \in 1..Len(cs) |-> i], LAMBDA i : DMatch(cs[i].rule, e)) IN [k \in 1..Len(idx) |-> cs[idx[k]].cls]
DesignCategory(cs, e) == Fold(Uncategorized, DMatching(cs, e))

Init == ev \in [ts : {0}, dur : {1}, data : EvData] /\ classes = <<>> /\ ph = 0
Next == ph = 0 /\ ph' = 1 /\ classes' \in SeqsUpTo(Classes, MaxRules) /\ UNCHANGED ev
Spec == Init /\ [][Next]_vars
DesignCategoryOK == DesignCategory(classes, ev) = CategoryOf(classes, ev)
DesignTagsOK == DMatching(classes, ev) = TagsOf(classes, ev)
CatsQ == {<<"c1">>, <<"c2">>, <<"c1", "c3">>}
=============================================================================
