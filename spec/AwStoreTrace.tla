---------------------------- MODULE AwStoreTrace ----------------------------
(***************************************************************************)
(* Trace judge for C02 / C04 / C05 (and the store half of C01, C07).       *)
(* Reads a batch of traces recorded from the real Datastore (memory,       *)
(* sqlite or peewee) and checks that every recorded call, with its         *)
(* recorded outcome and the full state observed afterwards, is a step      *)
(* Step(o) of AwStore.  Prints <<"ACCEPT", tid>> for a trace that is a     *)
(* behaviour of the specification and <<"REJECT", tid, l, op, clause>>     *)
(* for the first record that is not.                                       *)
(***************************************************************************)
EXTENDS AwStore, TLCExt, Json, IOUtils

Traces == JsonDeserialize(IOEnv.TRACE_FILE)

VARIABLES tid, l
tvars == <<bk, tid, l>>

SeqToSet(sq) == {sq[i] : i \in 1..Len(sq)}
T == Traces[tid]
R == T[l]

\* ---- observation -> abstract state ------------------------------------------------------------
ObsB(o) == IF ~o.ex THEN None
           ELSE [ex |-> TRUE, type |-> o.type, client |-> o.client, host |-> o.host, name |-> o.name,
                 data |-> o.data, created |-> o.created, evs |-> SeqToSet(o.evs)]
Obs(r) == [b \in Buckets |-> ObsB(r.st[b])]

Ev(i, e) == Event(i, e.ts, e.dur, e.d)

\* ---- the operation record of AwStore that the recorded call denotes ----------------------------
\* latitude is filled in from the observation: the name of a bucket created without one, the ids of
\* newly inserted events, the addressed bucket's fate under an out-of-contract id
\* latitude is filled in from an observation `ost` (the full state recorded after the call, or after the
\* batch the call belongs to): the name of a bucket created without one, the ids of newly inserted events,
\* the addressed bucket's fate under an out-of-contract id
NewObsIn(r, s, ost) == {x \in SeqToSet(ost[r.b].evs) : x.id \notin LiveIds(s, r.b)}
ToOpIn(r, s, ost) ==
  CASE r.op = "create"        -> [op |-> "create", b |-> r.b, meta |-> r.meta,
                                  nm |-> IF r.meta.name # "None" THEN r.meta.name ELSE IF ost[r.b].ex THEN ost[r.b].name ELSE "?"]
    [] r.op = "update"        -> [op |-> "update", b |-> r.b, f |-> r.f]
    [] r.op = "delete_bucket" -> [op |-> "delete_bucket", b |-> r.b]
    [] r.op = "absent"        -> [op |-> "absent", b |-> r.b, kind |-> r.kind, out |-> r.out]
    [] r.op = "insert"        -> [op |-> "insert", b |-> r.b, ev |-> Ev(r.id, r.ev)]
    [] r.op = "bulk"          -> [op |-> "bulk", b |-> r.b,
                                  ups |-> {Ev(it.id, it) : it \in {x \in SeqToSet(r.items) : x.id # -1}},
                                  news |-> NewObsIn(r, s, ost)]
    [] r.op = "replace"       -> [op |-> "replace", b |-> r.b, ev |-> Ev(r.id, r.ev)]
    [] r.op = "replace_last"  -> [op |-> "replace_last", b |-> r.b, ev |-> Ev(r.pre1, r.ev)]
    [] r.op = "delete"        -> [op |-> "delete", b |-> r.b, id |-> r.id]
    [] r.op = "foreign"       -> [op |-> "foreign", b |-> r.b, id |-> r.id,
                                  post |-> IF ost[r.b].ex THEN SeqToSet(ost[r.b].evs) ELSE {}]
    [] OTHER                  -> [op |-> "unknown"]
NewObs(r) == NewObsIn(r, bk, r.st)
ToOp(r) == ToOpIn(r, bk, r.st)

\* ---- batches: several calls issued without any read in between, then one observation --------------------
\* (this is where write buffering, handle caches and rollbacks could hide an effect from a later reader)
OutcomeOK(x) == CASE x.op = "absent" -> x.out = AbsentOutcome(x.kind) [] x.op = "foreign" -> TRUE [] OTHER -> x.out = "ok"
RECURSIVE FoldOps(_, _, _)
FoldOps(s, ops, ost) ==
  IF ops = <<>> THEN [ok |-> TRUE, s |-> s]
  ELSE LET o == ToOpIn(Head(ops), s, ost)
       IN IF ~Pre(s, o) THEN [ok |-> FALSE, s |-> s] ELSE FoldOps(Post(s, o), Tail(ops), ost)
Addressed(r) == {r.ops[i].b : i \in 1..Len(r.ops)}
BatchClause(r) ==
  LET f == FoldOps(bk, r.ops, r.st) IN
  IF \E c \in Buckets \ Addressed(r) : bk[c] # Obs(r)[c] THEN "batch-other-bucket-changed"
  ELSE IF \E i \in 1..Len(r.ops) : ~OutcomeOK(r.ops[i]) THEN "batch-outcome"
  ELSE IF ~f.ok THEN "batch-precondition"
  \* the run ends with an out-of-contract call: every bucket other than the one it addressed must hold what the
  \* calls before it left there (C04 without an intermediate read)
  ELSE IF r.ops[Len(r.ops)].op = "foreign" /\ \E c \in Buckets \ {r.ops[Len(r.ops)].b} : f.s[c] # Obs(r)[c]
       THEN "batch-other-bucket-changed-by-out-of-contract-call"
  \* a control execution of the same history without the run's last call is attached (frame probes): when the control
  \* holds what the reference model holds but, with the last call issued, a bucket OTHER than the one it addressed does
  \* not, that call changed another bucket (C04 without an intermediate read)
  ELSE IF r.ctrl.has /\ Len(r.ops) >= 1 /\
          LET c0 == [b \in Buckets |-> ObsB(r.ctrl.pre[b])]
              c1 == [b \in Buckets |-> ObsB(r.ctrl.st[b])]
              fc == FoldOps(c0, r.ctrl.ops, r.ctrl.st)
              lastb == r.ops[Len(r.ops)].b
          IN /\ fc.ok /\ \A c \in Buckets : fc.s[c] = c1[c]
             /\ \E c \in Buckets \ {lastb} : f.s[c] # Obs(r)[c]
       THEN "batch-other-bucket-changed-by-last-call"
  ELSE IF \E c \in Buckets : f.s[c] # Obs(r)[c] THEN "batch-final-state"
  ELSE "none"

\* ---- clauses of the step relation, named for diagnosis --------------------------------------------
\* C04: every bucket other than the addressed one reads back exactly as before (events and metadata)
CFrame(r)   == \A c \in Buckets \ {r.b} : bk[c] = Obs(r)[c]
\* in-contract calls succeed; absent-bucket calls raise the documented class; out-of-contract ids may raise
COutcome(r) == CASE r.op = "absent"  -> r.out = AbsentOutcome(r.kind)
                 [] r.op = "foreign" -> TRUE
                 [] OTHER            -> r.out = "ok"
CPre(r)     == Pre(bk, ToOp(r))
CTarget(r)  == Post(bk, ToOp(r))[r.b] = Obs(r)[r.b]
\* bulk: the new events are exactly the inserted values (as a multiset)
CBag(r) == r.op = "bulk" =>
   LET ins == SelectSeq(r.items, LAMBDA it : it.id = -1)
       new == NewObs(r)
   IN /\ Cardinality(new) = Len(ins)
      /\ \A k \in 1..Len(ins) :
           Cardinality({x \in new : x.ts = ins[k].ts /\ x.dur = ins[k].dur /\ x.d = ins[k].d})
             = Cardinality({j \in 1..Len(ins) : ins[j].ts = ins[k].ts /\ ins[j].dur = ins[k].dur /\ ins[j].d = ins[k].d})
\* the reads recorded with the state agree with each other (C02: listing, lookup-by-id and count are
\* views of one list; listing is newest first; C05: the bucket listing shows the same metadata)
CReads(r) == \A b \in Buckets : r.st[b].ex =>
   LET o == r.st[b] IN
   /\ \A k \in 1..(Len(o.evs) - 1) : o.evs[k].ts >= o.evs[k+1].ts
   /\ Cardinality({e.id : e \in SeqToSet(o.evs)}) = Len(o.evs)
   /\ o.count = Len(o.evs)
   /\ \A p \in SeqToSet(o.byid) :
        IF p.id \in {e.id : e \in SeqToSet(o.evs)}
        THEN p.hit = (CHOOSE e \in SeqToSet(o.evs) : e.id = p.id)
        ELSE p.hit = [id |-> -1]
\* the limit-1 read taken immediately before a replace-last returned one of the newest events
\* C05: the bucket listing shows exactly the metadata that describing the bucket returns
CListing(r) == \A b \in Buckets : r.st[b].ex =>
   LET o == r.st[b] IN
   /\ o.lst = [ex |-> TRUE, type |-> o.type, client |-> o.client, host |-> o.host, name |-> o.name,
                data |-> o.data, created |-> o.created, idok |-> TRUE]
   /\ o.idok
   \* ... also through a handle obtained earlier, whatever happened to the bucket id in between
   /\ \A k \in 1..Len(o.hd) : o.hd[k] = [ex |-> TRUE, type |-> o.type, client |-> o.client, host |-> o.host, name |-> o.name,
                                          data |-> o.data, created |-> o.created, idok |-> TRUE, out |-> "ok"]
\* a bucket that does not exist is not listed, and describing it (through an old handle) raises ValueError
CListedAbsent(r) == \A b \in Buckets : ~r.st[b].ex => (~r.st[b].lst.ex /\ \A k \in 1..Len(r.st[b].hd) : r.st[b].hd[k] = [ex |-> FALSE, out |-> "ValueError"])
\* the model's invariants and action properties, evaluated on the implementation's step
CInv(r) == IdsUnique(Obs(r)) /\ FrameRel(bk, Obs(r)) /\ CreatedEmptyRel(bk, Obs(r)) /\ CreatedStableRel(bk, Obs(r))

\* "other": a call outside the properties' quantifiers (recorded from the repository's own tests: duplicate creation,
\* single insert of an id-carrying event, calls that are expected to raise): not judged, the judge follows the observation
FailClause(r) ==
  IF r.op = "other" THEN "none"
  ELSE IF r.op = "batch" THEN (IF BatchClause(r) # "none" THEN BatchClause(r)
                          ELSE IF ~CReads(r) THEN "reads-disagree" ELSE IF ~CListing(r) THEN "listing-disagrees"
                          ELSE IF ~CListedAbsent(r) THEN "absent-bucket-listed" ELSE IF ~IdsUnique(Obs(r)) THEN "model-invariant" ELSE "none")
  ELSE IF ~CFrame(r) THEN "other-bucket-changed"
  ELSE IF ~COutcome(r) THEN "outcome"
  ELSE IF ~CPre(r) THEN "precondition"
  ELSE IF ~CTarget(r) THEN "target-bucket-state"
  ELSE IF ~CBag(r) THEN "bulk-values"
  ELSE IF ~CReads(r) THEN "reads-disagree"
  ELSE IF ~CListing(r) THEN "listing-disagrees"
  ELSE IF ~CListedAbsent(r) THEN "absent-bucket-listed"
  ELSE IF ~CInv(r) THEN "model-invariant"
  ELSE "none"

StepOK(r) == FailClause(r) = "none"

TInit == tid \in 1..Len(Traces) /\ l = 1 /\ bk = [b \in Buckets |-> None]
\* A conforming record is a step of the specification whose result is the state the implementation shows.
\* A non-conforming record is reported (REJECT) and the judge resynchronises on the observed state, so
\* that the rest of the trace is still checked.
TNext == /\ l <= Len(T)
         /\ IF StepOK(R) /\ R.op \notin {"batch", "other"} THEN Step(ToOp(R)) /\ bk' = Obs(R)
                                             ELSE bk' = Obs(R)
         /\ l' = l + 1 /\ UNCHANGED tid
TSpec == TInit /\ [][TNext]_tvars

\* verdict lines (evaluated as an invariant on every reached state): a trace is accepted when it printed
\* ACCEPT (its end was reached) and no REJECT
Verdict ==
  IF l > Len(T) THEN PrintT(<<"ACCEPT", tid>>)
  ELSE IF ~StepOK(R) THEN PrintT(<<"REJECT", tid, l, R.op, FailClause(R)>>)
  ELSE TRUE
=============================================================================
