---------------------------- MODULE AwHeartbeatTrace ----------------------------
(* Judge for C08 (recorded heartbeat_merge / heartbeat_reduce calls) and C07 (the recorded ingestion    *)
(* loop through a real bucket).  Unit: half a tick, so fractional pulsetimes are integers.              *)
EXTENDS AwHeartbeat, TLCExt, Json, IOUtils

Traces == JsonDeserialize(IOEnv.TRACE_FILE)
VARIABLES tid, l, evs, spect, P
vars == <<tid, l, evs, spect, P>>
T == Traces[tid]
R == T[l]
SeqSet(sq) == {sq[i] : i \in 1..Len(sq)}
Val(e) == [ts |-> e.ts, dur |-> e.dur, d |-> e.d]
Vals(sq) == [k \in 1..Len(sq) |-> Val(sq[k])]
Ids(S) == {e.id : e \in S}
NewestOf(S) == {x \in S : \A y \in S : y.ts <= x.ts}
\* multiset equality of a set of id-carrying events and a sequence of values
SameBag(S, sq) == /\ Cardinality(S) = Len(sq)
                  /\ \A k \in 1..Len(sq) : Cardinality({x \in S : Val(x) = sq[k]}) = Cardinality({j \in 1..Len(sq) : sq[j] = sq[k]})

\* ---- C08 ----
MergeClause(r) ==
  LET can == Mergeable(r.e1, r.e2, r.P) IN
  IF r.hit # can THEN (IF can THEN "mergeable-pair-not-merged" ELSE "unmergeable-pair-merged")
  ELSE IF can /\ Val(r.out) # Merged(r.e1, r.e2) THEN "merged-value-wrong"
  ELSE "none"
ReduceClause(r) ==
  LET want == Reduce(Vals(r.inp), r.P) IN
  IF Vals(r.out) # want THEN "reduce-is-not-the-left-fold"
  ELSE IF ~NormalForm(Vals(r.out), r.P) THEN "output-has-consecutive-mergeable-events"
  ELSE IF Vals(r.again) # Vals(r.out) THEN "reduce-not-idempotent"
  ELSE IF ~Covers(Vals(r.inp), Vals(r.out)) THEN "input-interval-not-covered"
  ELSE "none"

\* ---- C07 ----
HbClause(r) ==
  LET st == SeqSet(r.st)
      h == r.hb
  IN
  IF SeqSet(r.sp) # spect THEN "spectator-bucket-changed"
  ELSE IF r.has1 # (evs # {}) THEN "limit-1-read-wrong"
  ELSE IF r.has1 /\ r.pre1 \notin NewestOf(evs) THEN "limit-1-read-not-newest"
  ELSE IF Cardinality(Ids(st)) # Len(r.st) THEN "duplicate-ids"
  ELSE IF \E k \in 1..(Len(r.st) - 1) : r.st[k].ts < r.st[k+1].ts THEN "listing-not-newest-first"
  ELSE IF r.has1 /\ Mergeable(Val(r.pre1), h, P)
       THEN (LET m == Merged(Val(r.pre1), h) IN
             IF st = (evs \ {r.pre1}) \cup {[id |-> r.pre1.id, ts |-> m.ts, dur |-> m.dur, d |-> m.d]} THEN "none"
             ELSE "merge-step-did-not-rewrite-exactly-the-newest-event")
       ELSE (IF \E x \in st : x.id \notin Ids(evs) /\ Val(x) = h /\ st \ {x} = evs THEN "none"
             ELSE "insert-step-did-not-add-exactly-the-heartbeat")
EndClause(r) ==
  LET want == Reduce(r.stream, P) IN
  IF ~SameBag(evs, want) THEN "bucket-differs-from-heartbeat_reduce"
  ELSE IF Vals(r.reduced) # want THEN "reduce-is-not-the-left-fold"
  ELSE "none"

TwinClause(r) == IF SameBag(SeqSet(r.st), Reduce(r.stream, P)) /\ Cardinality(Ids(SeqSet(r.st))) = Len(r.st) THEN "none"
                 ELSE "twin-bucket-differs-from-heartbeat_reduce"
Clause(r) ==
  CASE r.op = "merge"  -> MergeClause(r)
    [] r.op = "twin"   -> TwinClause(r)
    [] r.op = "reduce" -> ReduceClause(r)
    [] r.op = "start"  -> "none"
    [] r.op = "hb"     -> HbClause(r)
    [] r.op = "end"    -> EndClause(r)
    [] r.op = "raised" -> "raised"
    [] OTHER           -> "unknown-record"

Init == tid \in 1..Len(Traces) /\ l = 1 /\ evs = {} /\ spect = {} /\ P = 0
Next == /\ l <= Len(T)
        /\ evs' = IF R.op = "hb" THEN SeqSet(R.st) ELSE IF R.op = "start" THEN {} ELSE evs     \* resynchronise on the observation
        /\ spect' = IF R.op = "start" THEN SeqSet(R.sp) ELSE spect
        /\ P' = IF R.op = "start" THEN R.P ELSE P
        /\ l' = l + 1 /\ UNCHANGED tid
Spec == Init /\ [][Next]_vars
Verdict ==
  IF l > Len(T) THEN PrintT(<<"ACCEPT", tid>>)
  ELSE IF Clause(R) # "none" THEN PrintT(<<"REJECT", tid, l, R.op, Clause(R)>>)
  ELSE TRUE
=============================================================================
