---------------------------- MODULE AwPeeweeDesign ----------------------------
(***************************************************************************)
(* Design layer of the ORM backend (aw_datastore/storages/peewee.py): the  *)
(* tables as peewee creates them - bucketmodel("key" INTEGER PRIMARY KEY,  *)
(* id UNIQUE) and eventmodel("id" INTEGER PRIMARY KEY, bucket_id, ...) -   *)
(* BOTH without AUTOINCREMENT, so SQLite hands out max(rowid) + 1 and a    *)
(* key or id that died may come back; the Python-side cache bucket_keys    *)
(* (name -> key) that every statement goes through; one action per         *)
(* statement group of the code.  TLC checks that every action is a step of *)
(* the property layer (AwStore) under the refinement mapping Abs (C02),    *)
(* that no other bucket changes (C04), that no event row is ever left      *)
(* without its bucket row (a re-created bucket would adopt it together     *)
(* with the reused key) and that the cache equals the table whenever a     *)
(* call returns.  Knobs select the repaired statements or the pinned       *)
(* tree's / a plausible slip, so the same text is the negative control.    *)
(***************************************************************************)
EXTENDS Integers, Sequences, FiniteSets, TLC

CONSTANTS BucketNames, Ticks, Durs, Datas, MaxRows,
          UpsertScoped,          \* TRUE: an id-carrying event goes through replace(), which looks the row up in the addressed
                                 \*       bucket (repaired); FALSE: model.save() = UPDATE ... SET bucket_id = b WHERE id = ? (pinned)
          DeleteEventsWithBucket,\* TRUE: delete_bucket deletes the bucket's event rows first (as the code does); FALSE: only the bucket row
          RefreshKeysOnDelete    \* TRUE: delete_bucket refreshes bucket_keys (as the code does); FALSE: the cache keeps the dead key

VARIABLES rows,      \* eventmodel: set of [id, br (bucket key), ts, dur, d]
          btab,      \* bucketmodel: bucket name -> key (0 = no row)
          keys,      \* the storage object's cache bucket_keys: bucket name -> key (0 = not cached)
          last       \* the abstract operation the step is meant to be (an AwStore operation record)
vars == <<rows, btab, keys, last>>

Meta0 == [type |-> "s1", client |-> "s1", host |-> "s1", name |-> "s1", data |-> "m0", created |-> 0]
S == INSTANCE AwStore WITH Buckets <- BucketNames, Ids <- 1..(MaxRows + 1), Strs <- {"s1"}, MDatas <- {"m0"}, MaxEvs <- MaxRows,
                           bk <- [b \in BucketNames |-> [ex |-> FALSE]]
RowsOf(R, k) == {x \in R : x.br = k}
AsEvent(x) == [id |-> x.id, ts |-> x.ts, dur |-> x.dur, d |-> x.d]
\* refinement mapping: what a reader sees - Datastore looks a bucket up in storage.buckets() (the TABLE), then every
\* statement addresses it through the CACHE
Abs(R, B, K) == [b \in BucketNames |-> IF B[b] = 0 THEN [ex |-> FALSE]
                                       ELSE [ex |-> TRUE, type |-> "s1", client |-> "s1", host |-> "s1", name |-> "s1", data |-> "m0", created |-> 0,
                                             evs |-> {AsEvent(x) : x \in RowsOf(R, K[b])}]]
MaxOf(Z) == CHOOSE m \in Z : \A z \in Z : z <= m
MinOf(Z) == CHOOSE m \in Z : \A z \in Z : m <= z
\* INTEGER PRIMARY KEY without AUTOINCREMENT: the next rowid is max(rowid) + 1, 1 for an empty table
NextKey == IF \A b \in BucketNames : btab[b] = 0 THEN 1 ELSE MaxOf({btab[b] : b \in BucketNames}) + 1
NextId(R) == IF R = {} THEN 1 ELSE MaxOf({x.id : x \in R}) + 1
\* SELECT ... WHERE bucket_id = k ORDER BY timestamp DESC LIMIT 1 - the statement of get_events(limit = 1) and of
\* _get_last().  Ties between equal timestamps are resolved by the query plan; both calls issue the same statement, so
\* they get the same row (assumption; the implementation traces of C02 / C07 check it on the real engine).
First(R, k) == LET mine == RowsOf(R, k)
                   ms == MaxOf({x.ts : x \in mine})
               IN CHOOSE x \in mine : x.ts = ms /\ x.id = MinOf({y.id : y \in {z \in mine : z.ts = ms}})

\* ---- actions ---------------------------------------------------------------------------------------------------
Create(b) == /\ btab[b] = 0
             /\ btab' = [btab EXCEPT ![b] = NextKey]
             /\ keys' = btab'                                               \* update_bucket_keys()
             /\ last' = [op |-> "create", b |-> b, meta |-> Meta0, nm |-> "s1"]
             /\ UNCHANGED rows
DeleteBucket(b) == /\ btab[b] # 0 /\ keys[b] # 0
                   /\ rows' = IF DeleteEventsWithBucket THEN rows \ RowsOf(rows, keys[b]) ELSE rows
                   /\ btab' = [btab EXCEPT ![b] = 0]
                   /\ keys' = IF RefreshKeysOnDelete THEN btab' ELSE keys
                   /\ last' = [op |-> "delete_bucket", b |-> b]
Insert(b, t, u, d) == /\ btab[b] # 0 /\ Cardinality(rows) < MaxRows
                      /\ LET i == NextId(rows) IN
                         /\ rows' = rows \cup {[id |-> i, br |-> keys[b], ts |-> t, dur |-> u, d |-> d]}
                         /\ last' = [op |-> "insert", b |-> b, ev |-> [id |-> i, ts |-> t, dur |-> u, d |-> d]]
                      /\ UNCHANGED <<btab, keys>>
\* replace(b, i, ev): _get_event selects WHERE id = i AND bucket_id = key; a miss is None and the attribute assignment raises
Replace(b, i, t, u, d) ==
  /\ btab[b] # 0 /\ \E x \in RowsOf(rows, keys[b]) : x.id = i
  /\ rows' = {IF x.id = i /\ x.br = keys[b] THEN [x EXCEPT !.ts = t, !.dur = u, !.d = d] ELSE x : x \in rows}
  /\ last' = [op |-> "replace", b |-> b, ev |-> [id |-> i, ts |-> t, dur |-> u, d |-> d]]
  /\ UNCHANGED <<btab, keys>>
\* insert(Event(id = i, ...)) - an upsert - with an id that is live in this bucket ...
Upsert(b, i, t, u, d) ==
  /\ btab[b] # 0 /\ \E x \in RowsOf(rows, keys[b]) : x.id = i
  /\ rows' = {IF x.id = i /\ (~UpsertScoped \/ x.br = keys[b]) THEN [x EXCEPT !.br = keys[b], !.ts = t, !.dur = u, !.d = d] ELSE x : x \in rows}
  /\ last' = [op |-> "replace", b |-> b, ev |-> [id |-> i, ts |-> t, dur |-> u, d |-> d]]
  /\ UNCHANGED <<btab, keys>>
\* ... and with an id that is NOT live in this bucket (out of contract, C04): live in another bucket or dead
UpsertForeign(b, i, t, u, d) ==
  /\ btab[b] # 0 /\ ~(\E x \in RowsOf(rows, keys[b]) : x.id = i)
  /\ rows' = IF UpsertScoped THEN rows        \* the lookup misses, the call raises, nothing is written
             ELSE {IF x.id = i THEN [x EXCEPT !.br = keys[b], !.ts = t, !.dur = u, !.d = d] ELSE x : x \in rows}
  /\ last' = [op |-> "foreign", b |-> b, id |-> i, post |-> {AsEvent(x) : x \in RowsOf(rows', keys[b])}]
  /\ UNCHANGED <<btab, keys>>
\* the heartbeat pattern: get(limit = 1), then replace_last (= _get_last() + save())
ReplaceLast(b, t, u, d) ==
  /\ btab[b] # 0 /\ RowsOf(rows, keys[b]) # {}
  /\ LET tgt == First(rows, keys[b])
         read == First(rows, keys[b])
     IN /\ rows' = {IF x = tgt THEN [x EXCEPT !.ts = t, !.dur = u, !.d = d] ELSE x : x \in rows}
        /\ last' = [op |-> "replace_last", b |-> b, ev |-> [id |-> read.id, ts |-> t, dur |-> u, d |-> d]]
  /\ UNCHANGED <<btab, keys>>
Delete(b, i) == /\ btab[b] # 0
                /\ rows' = {x \in rows : ~(x.id = i /\ x.br = keys[b])}
                /\ last' = [op |-> "delete", b |-> b, id |-> i]
                /\ UNCHANGED <<btab, keys>>
\* insert([...]): the id-carrying events one by one through insert_one, then the others in one INSERT (rowids max+1, max+2)
Bulk(b, i, t, u, d, n) ==
  /\ btab[b] # 0 /\ Cardinality(rows) + n <= MaxRows /\ \E x \in RowsOf(rows, keys[b]) : x.id = i
  /\ LET r1 == {IF x.id = i /\ (~UpsertScoped \/ x.br = keys[b]) THEN [x EXCEPT !.br = keys[b], !.ts = t, !.dur = u, !.d = d] ELSE x : x \in rows}
         base == NextId(r1)
         news == {[id |-> base + j, br |-> keys[b], ts |-> t, dur |-> 0, d |-> d] : j \in 0..(n - 1)}
     IN /\ rows' = r1 \cup news
        /\ last' = [op |-> "bulk", b |-> b, ups |-> {[id |-> i, ts |-> t, dur |-> u, d |-> d]}, news |-> {AsEvent(x) : x \in news}]
  /\ UNCHANGED <<btab, keys>>

Init == rows = {} /\ btab = [b \in BucketNames |-> 0] /\ keys = btab /\ last = [op |-> "init"]
Next == \/ \E b \in BucketNames : Create(b) \/ DeleteBucket(b)
        \/ \E b \in BucketNames, t \in Ticks, u \in Durs, d \in Datas : Insert(b, t, u, d) \/ ReplaceLast(b, t, u, d)
        \/ \E b \in BucketNames, i \in 1..(MaxRows + 1), t \in Ticks, u \in Durs, d \in Datas :
              Replace(b, i, t, u, d) \/ Upsert(b, i, t, u, d) \/ UpsertForeign(b, i, t, u, d) \/ \E n \in 1..2 : Bulk(b, i, t, u, d, n)
        \/ \E b \in BucketNames, i \in 1..(MaxRows + 1) : Delete(b, i)
Spec == Init /\ [][Next]_vars

\* ---- refinement: every design step is the AwStore step it is meant to be -----------------------------------------
Refines == [][ S!Pre(Abs(rows, btab, keys), last') /\ S!Post(Abs(rows, btab, keys), last') = Abs(rows', btab', keys') ]_vars
\* C04 on the design, stated directly
FrameOK == [][\A c \in BucketNames \ {last'.b} : Abs(rows', btab', keys')[c] = Abs(rows, btab, keys)[c]]_vars
\* keys are reused: an event row without its bucket row would be adopted by the next bucket that gets the key
NoOrphans == \A x \in rows : \E b \in BucketNames : btab[b] = x.br
CacheIsTable == keys = btab
IdsGloballyUnique == \A x, y \in rows : x.id = y.id => x = y
\* ids are max + 1 and dead ids below the maximum are not reused: bound them for model checking
\* (and a key climbs while the other bucket keeps the greatest one)
Bound == (\A x \in rows : x.id <= MaxRows + 1) /\ (\A b \in BucketNames : btab[b] <= Cardinality(BucketNames) + 1)
KeysDistinct == \A a, b \in BucketNames : a # b /\ btab[a] # 0 => btab[a] # btab[b]
=============================================================================
