---------------------------- MODULE AwMemoryDesign ----------------------------
(***************************************************************************)
(* Design layer of the in-memory backend (aw_datastore/storages/memory.py):*)
(* one Python list of events per bucket, ids allocated as max(id) + 1,     *)
(* reads sort the list by timestamp (stable) and reverse it, replace_last  *)
(* takes the last element of the stably sorted list.  TLC checks that      *)
(* every action is a step of AwStore under the refinement mapping, that    *)
(* the limit-1 read and replace_last agree also under timestamp ties, and  *)
(* that ids stay unique although dead ids are reused.  Knobs give the      *)
(* negative controls (id = len(list); replace_last by max() instead of     *)
(* sorted()[-1], which picks the FIRST of several newest events).          *)
(***************************************************************************)
EXTENDS Integers, Sequences, FiniteSets, TLC

CONSTANTS BucketNames, Ticks, Durs, Datas, MaxLen,
          IdIsMaxPlusOne,       \* TRUE: id = max(ids) + 1 (0 for an empty list); FALSE: id = len(list)
          ReplaceLastSorted     \* TRUE: sorted(key=timestamp)[-1]; FALSE: max(key=timestamp) (first maximal element)

VARIABLES lists,   \* bucket name -> sequence of [id, ts, dur, d]
          exists_,      \* bucket name -> BOOLEAN: the bucket exists
          last
vars == <<lists, exists_, last>>

Meta0 == [type |-> "s1", client |-> "s1", host |-> "s1", name |-> "s1", data |-> "m0", created |-> 0]
S == INSTANCE AwStore WITH Buckets <- BucketNames, Ids <- 0..(2 * MaxLen), Strs <- {"s1"}, MDatas <- {"m0"}, MaxEvs <- MaxLen,
                           bk <- [b \in BucketNames |-> [ex |-> FALSE]]
SeqSet(sq) == {sq[i] : i \in 1..Len(sq)}
Abs(L, X) == [b \in BucketNames |-> IF ~X[b] THEN [ex |-> FALSE]
                                 ELSE [ex |-> TRUE, type |-> "s1", client |-> "s1", host |-> "s1", name |-> "s1", data |-> "m0", created |-> 0,
                                       evs |-> SeqSet(L[b])]]
MaxOf(Z) == CHOOSE m \in Z : \A z \in Z : z <= m
\* position of the element Python's stable sort by timestamp puts last: the LAST element among those with the greatest timestamp
LastOfSorted(sq) == LET ms == MaxOf({sq[i].ts : i \in 1..Len(sq)}) IN MaxOf({i \in 1..Len(sq) : sq[i].ts = ms})
\* max(key=timestamp): the FIRST element with the greatest timestamp
FirstMax(sq) == LET ms == MaxOf({sq[i].ts : i \in 1..Len(sq)}) IN CHOOSE i \in 1..Len(sq) : sq[i].ts = ms /\ \A j \in 1..Len(sq) : sq[j].ts = ms => i <= j
\* get_events(limit = 1): sorted(key=timestamp)[::-1][0] - the same element as LastOfSorted
ReadFirst(sq) == sq[LastOfSorted(sq)]
NewId(sq) == IF IdIsMaxPlusOne THEN (IF sq = <<>> THEN 0 ELSE MaxOf({sq[i].id : i \in 1..Len(sq)}) + 1) ELSE Len(sq)

Create(b) == /\ ~exists_[b] /\ lists' = [lists EXCEPT ![b] = <<>>] /\ exists_' = [exists_ EXCEPT ![b] = TRUE]
             /\ last' = [op |-> "create", b |-> b, meta |-> Meta0, nm |-> "s1"]
DeleteBucket(b) == /\ exists_[b] /\ lists' = [lists EXCEPT ![b] = <<>>] /\ exists_' = [exists_ EXCEPT ![b] = FALSE]
                   /\ last' = [op |-> "delete_bucket", b |-> b]
Insert(b, t, u, d) ==
  /\ exists_[b] /\ Len(lists[b]) < MaxLen /\ UNCHANGED exists_
  /\ LET i == NewId(lists[b]) IN
     /\ lists' = [lists EXCEPT ![b] = Append(@, [id |-> i, ts |-> t, dur |-> u, d |-> d])]
     /\ last' = [op |-> "insert", b |-> b, ev |-> [id |-> i, ts |-> t, dur |-> u, d |-> d]]
\* replace(b, i, ev): the last list element carrying that id is overwritten (the loop runs over the reversed list)
Replace(b, i, t, u, d) ==
  /\ exists_[b] /\ UNCHANGED exists_ /\ \E k \in 1..Len(lists[b]) : lists[b][k].id = i
  /\ LET k == MaxOf({j \in 1..Len(lists[b]) : lists[b][j].id = i}) IN
     lists' = [lists EXCEPT ![b] = [@ EXCEPT ![k] = [id |-> i, ts |-> t, dur |-> u, d |-> d]]]
  /\ last' = [op |-> "replace", b |-> b, ev |-> [id |-> i, ts |-> t, dur |-> u, d |-> d]]
ReplaceLast(b, t, u, d) ==
  /\ exists_[b] /\ UNCHANGED exists_ /\ lists[b] # <<>>
  /\ LET k == IF ReplaceLastSorted THEN LastOfSorted(lists[b]) ELSE FirstMax(lists[b])
         read == ReadFirst(lists[b])
     IN /\ lists' = [lists EXCEPT ![b] = [@ EXCEPT ![k] = [id |-> @.id, ts |-> t, dur |-> u, d |-> d]]]
        /\ last' = [op |-> "replace_last", b |-> b, ev |-> [id |-> read.id, ts |-> t, dur |-> u, d |-> d]]
Delete(b, i) ==
  /\ exists_[b] /\ UNCHANGED exists_
  /\ LET hits == {j \in 1..Len(lists[b]) : lists[b][j].id = i} IN
     lists' = IF hits = {} THEN lists
              ELSE LET k == MaxOf(hits) IN [lists EXCEPT ![b] = SubSeq(@, 1, k - 1) \o SubSeq(@, k + 1, Len(@))]
  /\ last' = [op |-> "delete", b |-> b, id |-> i]

Init == lists = [b \in BucketNames |-> <<>>] /\ exists_ = [b \in BucketNames |-> FALSE] /\ last = [op |-> "init"]
Next == \/ \E b \in BucketNames : Create(b) \/ DeleteBucket(b)
        \/ \E b \in BucketNames, t \in Ticks, u \in Durs, d \in Datas : Insert(b, t, u, d) \/ ReplaceLast(b, t, u, d)
        \/ \E b \in BucketNames, i \in 0..(2 * MaxLen), t \in Ticks, u \in Durs, d \in Datas : Replace(b, i, t, u, d)
        \/ \E b \in BucketNames, i \in 0..(2 * MaxLen) : Delete(b, i)
Spec == Init /\ [][Next]_vars

Refines == [][ S!Pre(Abs(lists, exists_), last') /\ S!Post(Abs(lists, exists_), last') = Abs(lists', exists_') ]_vars
IdsUniqueInList == \A b \in BucketNames : \A i, j \in 1..Len(lists[b]) : i # j => lists[b][i].id # lists[b][j].id
=============================================================================
