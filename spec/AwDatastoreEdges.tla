---------------------------- MODULE AwDatastoreEdges ----------------------------
(* Edge printer: while TLC explores AwDatastoreDesign exhaustively, every transition is written out as one JSON line   *)
(* (source state + method + bucket).  The harness replays each edge on the real Datastore (harness/wrapper.py) and     *)
(* AwDatastoreTrace judges what it observed.                                                                           *)
EXTENDS AwDatastoreDesign, Json
PrintEdge == PrintT(<<"EDGE", ToJson([s |-> stored, i |-> inst, op |-> out'.op, b |-> out'.b])>>)
=============================================================================
