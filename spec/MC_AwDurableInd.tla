---------------------------- MODULE MC_AwDurableInd ----------------------------
(***************************************************************************)
(* Unbounded safety of the lazy-commit counter (design layer of C06) by an *)
(* inductive invariant, discharged with Apalache:                          *)
(*   (1) Init => IndInv                 apalache-mc check --init=Init    --inv=IndInv --length=0 *)
(*   (2) IndInv /\ Next => IndInv'      apalache-mc check --init=IndInit --inv=IndInv --length=1 *)
(*   (3) IndInv => BufferedBounded      apalache-mc check --init=IndInit --inv=BufferedBounded --length=0 *)
(* Bulk sizes, clock increments and history length are unbounded here      *)
(* (AwDurable.tla checks the same automaton with TLC for bounded ones).    *)
(***************************************************************************)
EXTENDS Integers

VARIABLES
  \* @type: Int;
  issued,
  \* @type: Int;
  durable,
  \* @type: Int;
  counter,
  \* @type: Int;
  now,
  \* @type: Int;
  lastCommit

Threshold == 50
AgeLimit == 10
MaxBuffered == 64

Commit == durable' = issued' /\ counter' = 0 /\ lastCommit' = now'
Keep == durable' = durable /\ lastCommit' = lastCommit

\* an event write of n >= 1 statements followed by conditional_commit(n)
EventWrite ==
  \E n \in Int :
    /\ n >= 1
    /\ issued' = issued + n
    /\ now' = now
    /\ IF counter + n > Threshold \/ now - lastCommit > AgeLimit
       THEN Commit
       ELSE counter' = counter + n /\ Keep
\* bucket operations and reads commit unconditionally
BucketOp == \E n \in {1, 2} : issued' = issued + n /\ now' = now /\ Commit
Read == issued' = issued /\ now' = now /\ Commit
Tick == \E d \in Int : d >= 0 /\ now' = now + d /\ issued' = issued /\ counter' = counter /\ Keep
Crash == issued' = durable /\ counter' = 0 /\ durable' = durable /\ now' = now /\ lastCommit' = now

\* an operation that raises: no write; it may or may not flush
FailedOp == issued' = issued /\ now' = now /\ (Commit \/ (counter' = counter /\ Keep))
\* first creation beside a legacy database: bucket row + n migrated events, committed before the counter starts at 0
Migrate == \E n \in Int : n >= 0 /\ issued = 0 /\ issued' = 1 + n /\ now' = now /\ Commit

Init == issued = 0 /\ durable = 0 /\ counter = 0 /\ now = 0 /\ lastCommit = 0
Next == EventWrite \/ BucketOp \/ Read \/ Tick \/ Crash \/ FailedOp \/ Migrate

IndInv == /\ counter = issued - durable
          /\ counter >= 0 /\ counter <= Threshold
          /\ durable >= 0
          /\ lastCommit <= now
IndInit == issued \in Int /\ durable \in Int /\ counter \in Int /\ now \in Int /\ lastCommit \in Int /\ IndInv
BufferedBounded == issued - durable <= MaxBuffered
=============================================================================
