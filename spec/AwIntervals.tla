---------------------------- MODULE AwIntervals ----------------------------
(***************************************************************************)
(* Interval transforms (C09, C10, C15) as declarative input/output         *)
(* relations.  An event is [id, ts, dur, d]; it occupies the closed        *)
(* interval [ts, ts + dur].  Cells(e) are the unit cells it covers (its    *)
(* measure), Pts(e) its closed point set in doubled coordinates (so that   *)
(* zero-length events and touching intervals are distinguished).  Each     *)
(* relation is a function from (inputs, recorded output, recorded inputs   *)
(* after the call) to the name of the first clause that fails, or "none".  *)
(***************************************************************************)
EXTENDS Integers, Sequences, FiniteSets

End(e) == e.ts + e.dur
Max2(a, b) == IF a > b THEN a ELSE b
Min2(a, b) == IF a < b THEN a ELSE b
SeqSet(sq) == {sq[i] : i \in 1..Len(sq)}
Cells(e) == IF e.dur > 0 THEN e.ts..(End(e) - 1) ELSE {}
Pts(e) == IF e.dur >= 0 THEN (2 * e.ts)..(2 * End(e)) ELSE {}
CoverC(S) == UNION {Cells(e) : e \in S}
CoverP(S) == UNION {Pts(e) : e \in S}
Positive(sq) == SelectSeq(sq, LAMBDA e : e.dur > 0)
Overlap(e, f) == Max2(e.ts, f.ts) < Min2(End(e), End(f))              \* for a positive time
DisjointSeq(sq) == \A i, j \in 1..Len(sq) : i < j => Cells(sq[i]) \cap Cells(sq[j]) = {}
NonOverlapping(S) == \A e, f \in S : e # f => Cells(e) \cap Cells(f) = {}
Count(sq, x) == Cardinality({k \in 1..Len(sq) : sq[k] = x})

----------------------------------------------------------------------------
(* C09: filter_period_intersect(A, B) *)
Piece(e, f) == [id |-> e.id, ts |-> Max2(e.ts, f.ts), dur |-> Min2(End(e), End(f)) - Max2(e.ts, f.ts), d |-> e.d]
\* the pieces e \cap f over all pairs overlapping for a positive time, each carrying e's id and data
Pieces(A, B) == UNION {{Piece(e, f) : f \in {g \in SeqSet(B) : Overlap(e, g)}} : e \in SeqSet(A)}
IntersectClause(A, B, Out, A2, B2) ==
  LET pos == Positive(Out) IN
  IF A2 # A \/ B2 # B THEN "input-modified"
  ELSE IF \E k \in 1..Len(pos) : pos[k] \notin Pieces(A, B) THEN "piece-is-not-an-intersection-of-an-overlapping-pair"
  ELSE IF \E p \in Pieces(A, B) : Count(pos, p) = 0 THEN "overlapping-pair-missing"
  ELSE IF \E p \in Pieces(A, B) : Count(pos, p) > 1 THEN "piece-counted-twice"
  ELSE IF \E k \in 1..Len(Out) : Out[k].dur < 0 THEN "negative-duration"
  ELSE "none"

(* C09: period_union(A, B) *)
UnionClause(A, B, Out) ==
  IF \E k \in 1..Len(Out) : Out[k].d # "empty" THEN "output-carries-data"
  ELSE IF \E k \in 1..(Len(Out) - 1) : ~(End(Out[k]) < Out[k+1].ts) THEN "outputs-not-sorted-with-positive-gaps"
  ELSE IF \E k \in 1..Len(Out) : Out[k].dur < 0 THEN "negative-duration"
  ELSE IF CoverP(SeqSet(Out)) # CoverP(SeqSet(A) \cup SeqSet(B)) THEN "covered-time-differs-from-union-of-inputs"
  ELSE "none"

----------------------------------------------------------------------------
(* C10: flood(In, P) *)
\* consecutive input events by time (timestamps are distinct), and the gaps between them
Sorted(S) == CHOOSE sq \in [1..Cardinality(S) -> S] : (\A i, j \in 1..Cardinality(S) : i < j => sq[i].ts < sq[j].ts)
GapCells(e, f) == End(e)..(f.ts - 1)                       \* cells strictly between two consecutive events
FloodClause(In, P, Out, In2) ==
  LET S == SeqSet(In)
      O == SeqSet(Out)
      sq == Sorted(S)
      n == Cardinality(S)
      short == UNION {GapCells(sq[k], sq[k+1]) : k \in {j \in 1..(n - 1) : sq[j+1].ts - End(sq[j]) <= P}}
      long  == UNION {GapCells(sq[k], sq[k+1]) : k \in {j \in 1..(n - 1) : sq[j+1].ts - End(sq[j]) > P}}
      labels == {e.d : e \in S}
  IN
  IF In2 # In THEN "input-modified"
  ELSE IF \E e \in O : e.dur <= 0 THEN "output-event-not-positive-length"
  ELSE IF ~DisjointSeq(Out) THEN "outputs-overlap"
  ELSE IF ~(CoverC(S) \subseteq CoverC(O)) THEN "covered-time-lost"
  ELSE IF \E x \in labels : ~(CoverC({e \in S : e.d = x}) \subseteq CoverC({e \in O : e.d = x})) THEN "label-lost-time"
  ELSE IF ~(short \subseteq CoverC(O)) THEN "short-gap-not-closed"
  ELSE IF long \cap CoverC(O) # {} THEN "long-gap-flooded"
  ELSE IF ~(CoverC(O) \subseteq CoverC(S) \cup short) THEN "time-covered-outside-input-and-short-gaps"
  ELSE IF \E e \in O : e.d \notin labels THEN "unknown-label"
  ELSE "none"

----------------------------------------------------------------------------
(* C15: union_no_overlap(A, B): A intact, of B only what A does not cover *)
UnionNoOverlapClause(A, B, Out, A2, B2) ==
  LET SA == SeqSet(A)
      SB == SeqSet(B)
      pos == Positive(Out)
      fromB(f) == SelectSeq(pos, LAMBDA x : x.d = f.d)
  IN
  IF A2 # A \/ B2 # B THEN "input-modified"
  ELSE IF \E e \in SA : Count(Out, e) # 1 THEN "first-list-event-missing-or-changed"
  ELSE IF \E k \in 1..Len(Out) : Out[k].dur < 0 THEN "negative-duration"
  ELSE IF \E k \in 1..Len(pos) : pos[k].d \notin {e.d : e \in SA \cup SB} THEN "unknown-label"
  ELSE IF \E f \in SB : ~DisjointSeq(fromB(f)) THEN "pieces-of-one-event-overlap"
  ELSE IF \E f \in SB : CoverC(SeqSet(fromB(f))) # Cells(f) \ CoverC(SA) THEN "second-list-pieces-are-not-exactly-the-uncovered-part"
  ELSE IF ~DisjointSeq(pos) THEN "outputs-overlap"
  ELSE IF CoverC(SeqSet(Out)) # CoverC(SA \cup SB) THEN "covered-time-differs-from-union"
  ELSE "none"
=============================================================================
