------------------------------ MODULE AwOwnership ------------------------------
(***************************************************************************)
(* C01: stored events come back exactly as inserted, and the store owns    *)
(* its copy.  One bucket; a value is opaque (it stands for a whole         *)
(* (instant to the ms, duration to the us, JSON data) triple).             *)
(*   store : set of [id, v]        what the bucket holds                   *)
(*   meta  : value of the bucket's data dict                               *)
(*   heap  : object reference -> value, the caller's objects: events that  *)
(*           were passed in, events and metadata dicts that were handed    *)
(*           out.  kind[o] says where the object came from.                *)
(* Insert stores a COPY of heap[o]; reads create NEW objects equal to what *)
(* is stored; CallerMutate changes the heap only.                          *)
(***************************************************************************)
EXTENDS Integers, Sequences, FiniteSets, TLC, TLCExt, Json

CONSTANTS Vals, Ids, Refs, Depth

VARIABLES store, meta, heap, kind, last
vars == <<store, meta, heap, kind, last>>

Free == {o \in Refs : kind[o] = "free"}
LiveIds == {e.id : e \in store}
NewRef == CHOOSE o \in Free : \A p \in Free : o <= p

Init == /\ store = {} /\ meta \in Vals
        /\ heap = [o \in Refs |-> "none"] /\ kind = [o \in Refs |-> "free"]
        /\ last = [op |-> "init"]

\* the caller makes an event object and inserts it: the store keeps a copy under a fresh id
Insert(v, i) == /\ Free # {} /\ i \notin LiveIds
                /\ store' = store \cup {[id |-> i, v |-> v]}
                /\ heap' = [heap EXCEPT ![NewRef] = v] /\ kind' = [kind EXCEPT ![NewRef] = "passed"]
                /\ last' = [op |-> "insert", ref |-> NewRef, v |-> v, id |-> i]
                /\ UNCHANGED meta
\* bulk insertion of two new events
Insert2(v, w, i, j) ==
     /\ Cardinality(Free) >= 2 /\ i # j /\ {i, j} \cap LiveIds = {}
     /\ LET o1 == NewRef
            o2 == CHOOSE o \in Free \ {o1} : \A p \in Free \ {o1} : o <= p
        IN /\ store' = store \cup {[id |-> i, v |-> v], [id |-> j, v |-> w]}
           /\ heap' = [heap EXCEPT ![o1] = v, ![o2] = w] /\ kind' = [kind EXCEPT ![o1] = "passed", ![o2] = "passed"]
           /\ last' = [op |-> "insert_many", ref |-> o1, ref2 |-> o2, v |-> v, w |-> w, id |-> i, id2 |-> j]
     /\ UNCHANGED meta
\* a read hands out a new object equal to what is stored
Lookup(e) == /\ Free # {} /\ e \in store
             /\ heap' = [heap EXCEPT ![NewRef] = e.v] /\ kind' = [kind EXCEPT ![NewRef] = "handed-out"]
             /\ last' = [op |-> "read", how |-> "lookup", ref |-> NewRef, id |-> e.id]
             /\ UNCHANGED <<store, meta>>
Listed(e) == /\ Free # {} /\ e \in store
             /\ heap' = [heap EXCEPT ![NewRef] = e.v] /\ kind' = [kind EXCEPT ![NewRef] = "handed-out"]
             /\ last' = [op |-> "read", how |-> "listing", ref |-> NewRef, id |-> e.id]
             /\ UNCHANGED <<store, meta>>
Describe == /\ Free # {}
            /\ heap' = [heap EXCEPT ![NewRef] = meta] /\ kind' = [kind EXCEPT ![NewRef] = "metadata"]
            /\ last' = [op |-> "read", how |-> "metadata", ref |-> NewRef, id |-> -1]
            /\ UNCHANGED <<store, meta>>
\* the bucket is deleted and created again under the same id: it is empty, later insertions behave as on a new bucket
Recreate == /\ store' = {}
            /\ last' = [op |-> "recreate"]
            /\ UNCHANGED <<meta, heap, kind>>
\* the caller mutates one of its objects (any of them, at any depth): only the heap changes
CallerMutate(o, v) == /\ kind[o] # "free" /\ heap[o] # v
                      /\ heap' = [heap EXCEPT ![o] = v]
                      /\ last' = [op |-> "mutate", ref |-> o, what |-> kind[o], v |-> v]
                      /\ UNCHANGED <<store, meta, kind>>

Next == \/ \E v \in Vals, i \in Ids : Insert(v, i)
        \/ \E v, w \in Vals, i, j \in Ids : Insert2(v, w, i, j)
        \/ \E e \in store : Lookup(e) \/ Listed(e)
        \/ Describe
        \/ Recreate
        \/ \E o \in Refs, v \in Vals : CallerMutate(o, v)
Spec == Init /\ [][Next]_vars

\* ---- properties ----
IdsUnique == \A x, y \in store : x.id = y.id => x = y
Ownership == [][last'.op = "mutate" => UNCHANGED <<store, meta>>]_vars
ReadsReflectStore == last.op = "read" =>
     IF last.how = "metadata" THEN heap[last.ref] = meta ELSE [id |-> last.id, v |-> heap[last.ref]] \in store
StoredAsInserted == last.op = "insert" => [id |-> last.id, v |-> last.v] \in store

\* ---- behaviour generation (simulation) ----
Pick(Z) == RandomElement(Z)
GenNext == \/ \E v \in {Pick(Vals)}, i \in {Pick(Ids \ LiveIds)} : Insert(v, i)
           \/ \E v \in {Pick(Vals)}, w \in {Pick(Vals)}, i \in {Pick(Ids \ LiveIds)}, j \in {Pick(Ids \ LiveIds)} : Insert2(v, w, i, j)
           \/ (store # {} /\ \E e \in {Pick(store)} : Lookup(e))
           \/ (store # {} /\ \E e \in {Pick(store)} : Listed(e))
           \/ Describe
           \/ (store # {} /\ Recreate)
           \/ \E o \in {Pick({r \in Refs : kind[r] # "free"} \cup {0})}, v \in {Pick(Vals)} : o # 0 /\ CallerMutate(o, v)
           \/ \E o \in {Pick({r \in Refs : kind[r] = "passed"} \cup {0})}, v \in {Pick(Vals)} : o # 0 /\ CallerMutate(o, v)
GenSpec == Init /\ [][GenNext]_vars
Emit == TLCGet("level") < Depth \/
        LET t == Trace IN PrintT(<<"BEHAVIOUR", ToJson([i \in 1..(Len(t) - 1) |-> t[i + 1].last])>>)
=============================================================================
