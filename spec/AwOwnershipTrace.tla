---------------------------- MODULE AwOwnershipTrace ----------------------------
(* Judge for C01: recorded insert / read / caller-mutation histories on one bucket of a real backend.   *)
(* Values are names of (instant to the ms, duration to the us, JSON data) triples; "UNKNOWN.." names    *)
(* stand for anything that is not one of the inserted triples.                                         *)
EXTENDS Integers, Sequences, FiniteSets, TLC, TLCExt, Json, IOUtils

Traces == JsonDeserialize(IOEnv.TRACE_FILE)
VARIABLES tid, l, store, meta
vars == <<tid, l, store, meta>>
T == Traces[tid]
R == T[l]
SeqSet(sq) == {sq[i] : i \in 1..Len(sq)}
Ids(S) == {e.id : e \in S}
St(r) == SeqSet(r.st.listing)
\* listing, lookup-by-id and count are views of one set with unique ids
ViewsAgree(r) == /\ Cardinality(Ids(St(r))) = Len(r.st.listing)
                 /\ r.st.count = Len(r.st.listing)
                 /\ \A p \in SeqSet(r.st.byid) : IF p.id \in Ids(St(r)) THEN [id |-> p.id, v |-> p.v] \in St(r) ELSE p.v = "None"
Clause(r) ==
  IF ~ViewsAgree(r) THEN "listing-and-lookup-disagree"
  ELSE CASE r.op = "start" -> IF St(r) = {} THEN "none" ELSE "new-bucket-not-empty"
    [] r.op = "insert" ->
         IF r.out # "ok" THEN "insert-raised"
         ELSE IF r.id \in Ids(store) THEN "id-not-unique-in-bucket"
         ELSE IF St(r) # store \cup {[id |-> r.id, v |-> r.v]} THEN "stored-event-differs-from-inserted"
         ELSE IF r.st.meta # meta THEN "metadata-changed" ELSE "none"
    [] r.op = "insert_many" ->
         LET new == St(r) \ store IN
         IF r.out # "ok" THEN "insert-raised"
         ELSE IF ~(store \subseteq St(r)) THEN "earlier-event-changed"
         ELSE IF Cardinality(new) # Len(r.vs) \/ Ids(new) \cap Ids(store) # {} THEN "id-not-unique-in-bucket"
         ELSE IF \E k \in 1..Len(r.vs) : Cardinality({x \in new : x.v = r.vs[k]}) # Cardinality({j \in 1..Len(r.vs) : r.vs[j] = r.vs[k]})
              THEN "stored-event-differs-from-inserted"
         ELSE IF r.st.meta # meta THEN "metadata-changed" ELSE "none"
    [] r.op = "read" ->
         IF St(r) # store \/ r.st.meta # meta THEN "read-changed-the-store"
         ELSE IF r.how = "metadata" THEN (IF r.got = meta THEN "none" ELSE "metadata-read-differs")
         ELSE IF [id |-> r.id, v |-> r.got] \in store THEN "none" ELSE "read-differs-from-stored"
    [] r.op = "recreate" ->
         IF r.out # "ok" THEN "recreate-raised"
         ELSE IF St(r) # {} THEN "recreated-bucket-not-empty"
         ELSE IF r.st.meta # meta THEN "metadata-changed" ELSE "none"
    [] r.op = "mutate" ->
         IF St(r) # store THEN "caller-mutation-changed-stored-events"
         ELSE IF r.st.meta # meta THEN "caller-mutation-changed-stored-metadata" ELSE "none"
    [] OTHER -> "unknown-record"
Init == tid \in 1..Len(Traces) /\ l = 1 /\ store = {} /\ meta = "?"
Next == /\ l <= Len(T)
        /\ store' = St(R) /\ meta' = R.st.meta          \* follow the observation (resynchronise after a REJECT)
        /\ l' = l + 1 /\ UNCHANGED tid
Spec == Init /\ [][Next]_vars
Verdict ==
  IF l > Len(T) THEN PrintT(<<"ACCEPT", tid>>)
  ELSE IF l > 1 /\ Clause(R) # "none" THEN PrintT(<<"REJECT", tid, l, R.op, Clause(R)>>)
  ELSE IF l = 1 /\ R.op = "start" /\ St(R) # {} THEN PrintT(<<"REJECT", tid, l, R.op, "new-bucket-not-empty">>)
  ELSE TRUE
=============================================================================
