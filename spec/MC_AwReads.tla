---------------------------- MODULE MC_AwReads ----------------------------
(* Design layer for C03, checked against the property layer by TLC for all small cases.             *)
(* Unit: half a millisecond (so sub-millisecond window edges exist); Tol = 4 (2 ms).               *)
(* Datastore.get floors the start to the millisecond and pushes the end to the next millisecond;    *)
(* the backends then select End(e) >= start /\ e.ts <= end, order by (ts, id) descending and cut    *)
(* to the limit; the clipping backend cuts the returned events to the rounded window.               *)
EXTENDS AwReads, SequencesExt, TLC

CONSTANTS Pos,      \* event start positions (even = on the ms grid)
          Lens,     \* event lengths
          Edges,    \* window edge positions (odd = between ms)
          Lims, MaxN

VARIABLES evs, w, lim
vars == <<evs, w, lim>>

FloorMs(t) == t - (t % 2)
RoundWin(x) == [hs |-> x.hs, s |-> IF x.hs THEN FloorMs(x.s) ELSE 0, he |-> x.he, e |-> IF x.he THEN FloorMs(x.e) + 2 ELSE 0]
Selected(S, x) == {e \in S : (x.hs => End(e) >= x.s) /\ (x.he => e.ts <= x.e)}
Newer(a, b) == a.ts > b.ts \/ (a.ts = b.ts /\ a.id > b.id)
Cut(sq, n) == IF n < 0 \/ n >= Len(sq) THEN sq ELSE SubSeq(sq, 1, n)
DesignRead(S, n, x) == IF n = 0 THEN <<>> ELSE Cut(SetToSortSeq(Selected(S, RoundWin(x)), Newer), n)
ClipEv(e, x) == LET s2 == IF x.hs THEN Max(e.ts, x.s) ELSE e.ts
                    e2 == IF x.he THEN Min(End(e), x.e) ELSE End(e)
                IN [e EXCEPT !.ts = s2, !.dur = e2 - s2]
DesignClipRead(S, n, x) == LET r == DesignRead(S, n, x) IN [k \in 1..Len(r) |-> ClipEv(r[k], RoundWin(x))]
DesignCount(S, x) == Cardinality(Selected(S, RoundWin(x)))

AllEvs == {[id |-> i, ts |-> p, dur |-> u, d |-> "d"] : i \in 1..MaxN, p \in Pos, u \in Lens}
Windows == {[hs |-> hs, s |-> IF hs THEN s ELSE 0, he |-> he, e |-> IF he THEN e ELSE 0] :
              hs \in BOOLEAN, he \in BOOLEAN, s \in Edges, e \in Edges}
Init == /\ evs \in {S \in SUBSET AllEvs : Cardinality(S) <= MaxN /\ \A x, y \in S : x.id = y.id => x = y
                                            /\ \A z \in S : \A j \in 1..(z.id - 1) : j \in {q.id : q \in S}}
        /\ w \in {x \in Windows : (x.hs /\ x.he) => x.s <= x.e}
        /\ lim \in Lims
Next == UNCHANGED vars
Spec == Init /\ [][Next]_vars

\* constant sets with negative members (cfg files cannot spell them)
EdgesQ == {-5, 0, 1, 4, 7, 8, 13}
EdgesT == {-5, -4, 0, 1, 3, 4, 5, 7, 8, 9, 12, 13, 17}
LimsQ  == {-1, 0, 1, 2}
LimsT  == {-1, 0, 1, 2, 3, 5}

DesignReadAdmissible     == ReadAdmissible(evs, DesignRead(evs, lim, w), lim, w)
DesignClipReadAdmissible == ReadAdmissible(evs, DesignClipRead(evs, lim, w), lim, w)
DesignCountAdmissible    == CountAdmissible(evs, DesignCount(evs, w), w)
\* the property layer is not vacuous: must-events exist, may-events exist, and something is excluded
MustSubMay == Must(evs, w) \subseteq MayOrMust(evs, w)
=============================================================================
