CONSTANTS
  Buckets = {"A", "B"}
  Ticks = {0, 1}
  Durs = {0, 1}
  Datas = {"d1", "d2"}
  Ids = {0, 1, 2}
  Strs = {"s1"}
  MDatas = {"m0", "m1"}
  MaxEvs = 2
  Metas <- MetasE
  Fields <- FieldsE
  Ops <- MCOps
SPECIFICATION Spec
INVARIANT TypeOK
INVARIANT IdsUniquePerBucket
PROPERTY Frame
PROPERTY CreatedEmpty
PROPERTY CreatedStable
