---------------------------- MODULE AwDurableTrace ----------------------------
(***************************************************************************)
(* Trace judge for C06 / C18.  A trace is one operation history run on a   *)
(* file-backed store together with what survived a real crash (SIGKILL)    *)
(* at every SQL statement, and after an exit without shutdown.             *)
(*   ops[n].writes : elementary writes of operation n in issue order       *)
(*   obs[l]        : [op (0-based index of the operation during which the  *)
(*                   process was killed, NOps = after all), st (buckets    *)
(*                   with metadata tag and event tags found in the file)]  *)
(* Every observation must be Apply of a prefix of the flattened writes     *)
(* (DiskIsPrefix), prefixes must not shrink (DurableMonotone), on the      *)
(* lazily-committing store a bucket deletion is never split (NoSplit), and *)
(* at operation boundaries the bounds of the property layer hold.          *)
(* The durable state is carried in a variable and advanced incrementally.  *)
(* A trace is accepted when ACCEPT is printed for it (some choice of        *)
(* candidate prefixes explains every observation); REJECT lines describe   *)
(* where a choice got stuck and matter only for traces without ACCEPT.     *)
(***************************************************************************)
EXTENDS Integers, Sequences, FiniteSets, TLC, TLCExt, Json, IOUtils

CONSTANTS MaxBuffered,   \* 64  : "the last few dozen (about 50) buffered event writes"
          AgeMust        \* 15 s: "more than about ten seconds"

Traces == JsonDeserialize(IOEnv.TRACE_FILE)
VARIABLES tid, l, dur, dstate, flushT, prevOp,
          flushB       \* the previous flush as known when operation prevOp BEGAN (fixed at prevOp's first observation, which
                       \* still shows what the operations before it made durable; commits that prevOp performs itself come later)
vars == <<tid, l, dur, dstate, flushT, prevOp, flushB>>
T == Traces[tid]
Lazy == T.lazy
Ops == T.ops
NOps == Len(Ops)
F == T.flat                                  \* all elementary writes of the history, flattened by the recorder
EndIdx(n) == IF n = 0 THEN 0 ELSE T.endidx[n]   \* index in F where operation n's writes end
TimeOf(n) == IF n = 0 THEN 0 ELSE T.timeof[IF n > NOps THEN NOps ELSE n]   \* virtual time (s) when operation n runs
Kind(n) == IF Ops[n].op \in {"create", "update", "delete_bucket"} THEN "bucket"
           ELSE IF Ops[n].writes # <<>> THEN "event" ELSE "other"
SeqSet(sq) == {sq[i] : i \in 1..Len(sq)}
Max2(a, b) == IF a > b THEN a ELSE b
\* the last operation up to n that is a call of the library (clock ticks are not)
RECURSIVE LastReal(_)
LastReal(n) == IF n = 0 THEN 0 ELSE IF Ops[n].op # "tick" THEN n ELSE LastReal(n - 1)

\* abstract file contents: bucket id -> [m (metadata tag), tags (set of event tags)]
ApplyW(st, w) ==
  CASE w.k = "bcreate" -> (w.b :> [m |-> w.m, tags |-> {}]) @@ st
    [] w.k = "bupdate" -> [st EXCEPT ![w.b].m = w.m]
    [] w.k = "bclear"  -> [st EXCEPT ![w.b].tags = {}]
    [] w.k = "bdelete" -> [x \in DOMAIN st \ {w.b} |-> st[x]]
    [] w.k = "ins"     -> [st EXCEPT ![w.b].tags = @ \cup {w.t}]
    [] w.k = "rew"     -> [st EXCEPT ![w.b].tags = (@ \ {w.old}) \cup {w.t}]
    [] w.k = "rem"     -> [st EXCEPT ![w.b].tags = @ \ {w.t}]
\* all prefix lengths j in lo..hi whose effect is the observed contents, scanning forward from <<lo, st>>.
\* Different prefixes can have the same effect (insert then delete), so the durable prefix is not always
\* determined by the observation: the judge keeps every candidate (a behaviour of the trace spec per
\* choice) and a trace is accepted when some choice explains all observations.
RECURSIVE Scan(_, _, _, _)
Scan(st, j, hi, target) == (IF st = target THEN {j} ELSE {}) \cup
                           (IF j >= hi THEN {} ELSE Scan(ApplyW(st, F[j + 1]), j + 1, hi, target))
Empty == [x \in {} |-> 0]
ObsState(o) == [x \in {r.id : r \in SeqSet(o.st.b)} |->
                  LET r == CHOOSE r \in SeqSet(o.st.b) : r.id = x IN [m |-> r.m, tags |-> SeqSet(r.tags)]]
O == T.obs[l]
CurOp == O.op + 1                            \* 1-based; NOps + 1 = after the last operation returned
Hi == EndIdx(IF CurOp > NOps THEN NOps ELSE CurOp)
Cands == Scan(dstate, dur, Hi, ObsState(O))          \* DiskIsPrefix + DurableMonotone: candidates start at dur
Done == CurOp - 1                            \* operations 1..Done have returned
AtBoundary == CurOp > prevOp /\ Done >= 1

ClauseFor(j) ==
    IF Lazy /\ j > 0 /\ j < Len(F) /\ F[j].k = "bclear" THEN "bucket-deletion-split"       \* NoSplit
    ELSE IF ~AtBoundary THEN "none"
    ELSE IF \E q \in 1..Done : Kind(q) = "bucket" /\ j < EndIdx(q) THEN "bucket-op-not-durable"
    ELSE IF ~Lazy /\ j < EndIdx(Done) THEN "completed-op-not-durable"       \* auto-committing store
    ELSE IF Lazy /\ EndIdx(Done) - j > MaxBuffered THEN "too-many-buffered"
    \* C18: "the previous flush" of a write is the last flush observed BEFORE the call was issued: a commit that the call
    \* itself performs part-way does not excuse the statements it issues afterwards - the write as a whole must be durable
    \* when it returns
    ELSE IF Lazy /\ \E q \in (IF prevOp = 0 THEN 1 ELSE prevOp)..Done :
                       Kind(q) = "event" /\ TimeOf(q) - (IF q = prevOp THEN flushB ELSE flushT) >= AgeMust /\ j < EndIdx(q)
         THEN "old-write-not-flushed"   \* C18
    ELSE "none"
MaxOf(S) == CHOOSE x \in S : \A y \in S : y <= x
Clause ==
  IF O.st.orph # <<>> THEN "orphan-events"                                   \* events without their bucket row
  ELSE IF Cands = {} THEN "not-a-prefix"
  ELSE IF \E j \in Cands : ClauseFor(j) = "none" THEN "none"
  ELSE ClauseFor(MaxOf(Cands))

Init == tid \in 1..Len(Traces) /\ l = 1 /\ dur = 0 /\ dstate = Empty /\ flushT = 0 /\ prevOp = 0 /\ flushB = 0
Next ==
  /\ l <= Len(T.obs)
  /\ O.st.orph = <<>>
  /\ \E j \in Cands :
       /\ ClauseFor(j) = "none"
       /\ dur' = j /\ dstate' = ObsState(O)
       \* "the previous flush", as far as it can be observed: (a) the durable prefix advanced - that happened
       \* while the operation of the previous observation ran, so it is dated then; (b) an operation that is not
       \* an event write (a read, a bucket operation, an operation that raised - anything that may commit) has
       \* completed and nothing is pending: it may have flushed, which is counted in the implementation's favour.
       \* Idle time (ticks) and event writes that return with their own write pending are NOT flushes.
       /\ flushT' = IF j > dur THEN TimeOf(prevOp)
                    ELSE IF AtBoundary /\ j = EndIdx(Done) /\ LastReal(Done) > 0 /\ Kind(LastReal(Done)) # "event"
                         THEN Max2(flushT, TimeOf(LastReal(Done)))
                    ELSE flushT
  /\ prevOp' = CurOp
  /\ flushB' = IF CurOp # prevOp THEN flushT' ELSE flushB
  /\ l' = l + 1 /\ UNCHANGED tid
Spec == Init /\ [][Next]_vars

Verdict ==
  IF l > Len(T.obs) THEN PrintT(<<"ACCEPT", tid>>)
  ELSE IF Clause # "none" THEN PrintT(<<"REJECT", tid, l, Ops[IF CurOp > NOps THEN NOps ELSE CurOp].op, Clause>>)
  ELSE TRUE
=============================================================================
