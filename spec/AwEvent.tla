------------------------------ MODULE AwEvent ------------------------------
(***************************************************************************)
(* C13: events normalise to UTC milliseconds and survive JSON round trips. *)
(* TLC integers are 32 bit, so an instant travels as limbs: [d: days since *)
(* 1970-01-01 of the local date, s: second of the local day, us:           *)
(* microsecond, off: UTC offset in minutes]; a duration as [neg, s, us].   *)
(***************************************************************************)
EXTENDS Integers, Sequences, FiniteSets, TLC

\* floor division / modulo for possibly negative numerators
FloorDiv(a, b) == IF a >= 0 THEN a \div b ELSE -(((-a) + b - 1) \div b)
Mod(a, b) == a - b * FloorDiv(a, b)

\* the same instant as a UTC datetime floored to the millisecond
Normalize(x) == LET s2 == x.s - 60 * x.off IN
                [d |-> x.d + FloorDiv(s2, 86400), s |-> Mod(s2, 86400), us |-> x.us - (x.us % 1000), utc |-> TRUE]

\* theorems (checked by TLC on a grid)
Idempotent(x) == LET n == Normalize(x) IN Normalize([d |-> n.d, s |-> n.s, us |-> n.us, off |-> 0]) = n
\* the same instant written in another zone normalises identically
Shift(x, m) == LET s2 == x.s + 60 * m IN [d |-> x.d + FloorDiv(s2, 86400), s |-> Mod(s2, 86400), us |-> x.us, off |-> x.off + m]
ZoneIndependent(x, m) == Normalize(Shift(x, m)) = Normalize(x)
MsFloor(x) == LET n == Normalize(x) IN n.us % 1000 = 0 /\ n.us <= x.us /\ x.us - n.us < 1000

\* one recorded construction + round trip
EventClause(r) ==
  LET want == Normalize(r.inp) IN
  IF r.out # want THEN "instant-not-utc-millisecond-floor"
  ELSE IF r.dout # r.din THEN "duration-not-preserved-to-the-microsecond"
  ELSE IF ~r.json_ok THEN "json-form-does-not-validate-against-the-schema"
  ELSE IF r.out2 # want \/ r.dout2 # r.din \/ r.data2 # r.data \/ r.id2 # r.id THEN "rebuilding-from-json-gives-a-different-event"
  ELSE IF r.out3 # want \/ r.dout3 # r.din \/ r.data3 # r.data \/ r.id3 # r.id THEN "rebuilding-from-the-event-gives-a-different-event"
  \* an instant assigned later through the timestamp setter is normalised like the constructor's (r.inp2 = r.inp when
  \* nothing was assigned), and the JSON form is the form of the event as it is now: after the caller assigned a new
  \* instant / duration and changed data in place
  ELSE IF r.out_set # Normalize(r.inp2) THEN "assigned-instant-not-utc-millisecond-floor"
  ELSE IF r.out4 # Normalize(r.inp2) \/ r.dout4 # r.dur_now \/ r.data4 # r.data_now \/ r.id4 # r.id_now THEN "json-form-is-stale-after-the-event-changed"
  ELSE "none"
=============================================================================
