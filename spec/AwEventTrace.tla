---------------------------- MODULE AwEventTrace ----------------------------
EXTENDS AwEvent, TLCExt, Json, IOUtils
Traces == JsonDeserialize(IOEnv.TRACE_FILE)
VARIABLES tid, l
vars == <<tid, l>>
T == Traces[tid]
R == T[l]
Init == tid \in 1..Len(Traces) /\ l = 1
Next == l <= Len(T) /\ l' = l + 1 /\ UNCHANGED tid
Spec == Init /\ [][Next]_vars
Verdict ==
  IF l > Len(T) THEN PrintT(<<"ACCEPT", tid>>)
  ELSE IF "raised" \in DOMAIN R THEN PrintT(<<"REJECT", tid, l, R.rep, "construction-or-conversion-raised">>)
  ELSE IF EventClause(R) # "none" THEN PrintT(<<"REJECT", tid, l, R.rep, EventClause(R)>>)
  ELSE TRUE
=============================================================================
