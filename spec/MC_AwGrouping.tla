---------------------------- MODULE MC_AwGrouping ----------------------------
(* Design layer for C16: transcription of merge_events_by_keys' dictionary accumulation, with the       *)
(* composite key built either from (key, value) pairs (repaired) or from values only (pinned tree);     *)
(* TLC checks the former against MergeClause for all small inputs and refutes the latter.               *)
EXTENDS AwGrouping, TLC

CONSTANTS KeyNames, Vals, MaxN, KeyLists, WithKeyNames
VARIABLES In, keys, ph
vars == <<In, keys, ph>>

DataSets == UNION {[S \cup {"_"} -> Vals \cup {"_"}] : S \in SUBSET KeyNames}
Datas == {f \in DataSets : f["_"] = "_" /\ \A k \in DOMAIN f \ {"_"} : f[k] # "_"}
Evs == [ts : {0, 1}, dur : {1, 2}, data : Datas]
RECURSIVE SeqsUpTo(_, _)
SeqsUpTo(S, n) == IF n = 0 THEN {<<>>} ELSE SeqsUpTo(S, n - 1) \cup {Append(q, x) : q \in {r \in SeqsUpTo(S, n - 1) : Len(r) = n - 1}, x \in S}

\* composite key as the code builds it: one entry per key that is present
RECURSIVE CKey(_, _)
CKey(e, ks) == IF ks = <<>> THEN <<>>
               ELSE (IF Has(e, Head(ks)) THEN <<IF WithKeyNames THEN <<Head(ks), e.data[Head(ks)]>> ELSE e.data[Head(ks)]>> ELSE <<>>) \o CKey(e, Tail(ks))
\* dictionary accumulation in insertion order: acc is a sequence of [ck, ev]
RECURSIVE Accum(_, _, _)
Accum(acc, rest, ks) ==
  IF rest = <<>> THEN acc
  ELSE LET e == Head(rest)
           ck == CKey(e, ks)
           hit == {i \in 1..Len(acc) : acc[i].ck = ck}
       IN IF hit = {}
          THEN Accum(Append(acc, [ck |-> ck, ev |-> [ts |-> e.ts, dur |-> e.dur, data |-> GroupData(e, SeqSet(ks))]]), Tail(rest), ks)
          ELSE LET i == CHOOSE i \in hit : TRUE IN Accum([acc EXCEPT ![i].ev.dur = @ + e.dur], Tail(rest), ks)
DesignMerge(I, ks) == IF ks = <<>> THEN I ELSE LET a == Accum(<<>>, I, ks) IN [i \in 1..Len(a) |-> a[i].ev]

\* two phases: the first event is fixed in the initial state, the rest of the input in the step (parallel)
Init == In \in {<<e>> : e \in Evs} /\ keys = <<>> /\ ph = 0
Next == ph = 0 /\ ph' = 1 /\ In' \in {<<In[1]>> \o q : q \in SeqsUpTo(Evs, MaxN - 1)} /\ keys' \in KeyLists
Spec == Init /\ [][Next]_vars
DesignMergeOK == ph = 1 => MergeClause(In, keys, DesignMerge(In, keys), In) = "none"
KL == {<<>>, <<"k1">>, <<"k2">>, <<"k1", "k2">>, <<"k2", "k1">>}
=============================================================================
