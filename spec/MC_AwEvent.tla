---------------------------- MODULE MC_AwEvent ----------------------------
EXTENDS AwEvent
CONSTANTS Days, Secs, Uss, Offs
VARIABLES x, m
OffsQ == {-840, -330, -60, 0, 1, 345, 840}
Init == x \in [d : Days, s : Secs, us : Uss, off : Offs] /\ m \in Offs
Next == UNCHANGED <<x, m>>
Spec == Init /\ [][Next]_<<x, m>>
ThIdempotent == Idempotent(x)
ThZone == ZoneIndependent(x, m)
ThFloor == MsFloor(x)
=============================================================================
