------------------------------ MODULE AwQuery ------------------------------
(***************************************************************************)
(* The query language of aw_query (C11, C12, C17): abstract syntax, its    *)
(* concrete text (Show), and its meaning (Run).                            *)
(*                                                                         *)
(* AST    [k:"int",v] [k:"str",v:name] [k:"list",v:Seq] [k:"var",v:name]   *)
(*        [k:"dict",v:Seq([key:name,val:ast])] [k:"call",f:name,a:Seq]     *)
(* A program is a sequence of assignments [var, rhs]; its result is the    *)
(* value of RETURN.                                                        *)
(*                                                                         *)
(* Values have the same shapes (int, str, list, dict) plus [k:"bool"] and  *)
(* [k:"res",v:n] = "the result of the n-th function call" for built-ins    *)
(* whose result the specification does not compute.  Run fixes WHICH       *)
(* built-in is applied to WHICH values in WHICH order (the call log) and   *)
(* how results flow through variables, lists, dicts and arguments; what    *)
(* each built-in computes is the business of C03..C19.  nop, concat and    *)
(* limit_events on call-free values are computed, so that the structural   *)
(* subset has a complete value semantics.                                  *)
(*                                                                         *)
(* Text is a sequence of pieces: literal chunks and the named characters   *)
(* "<sq>" (single quote) "<dq>" (double quote) "<bs>" (backslash) "<nl>".  *)
(***************************************************************************)
EXTENDS Integers, Sequences, FiniteSets, TLC

I(n) == [k |-> "int", v |-> n]
S(nm) == [k |-> "str", v |-> nm]
B(b) == [k |-> "bool", v |-> b]
L(sq) == [k |-> "list", v |-> sq]
D(sq) == [k |-> "dict", v |-> sq]
V(nm) == [k |-> "var", v |-> nm]
C(f, a) == [k |-> "call", f |-> f, a |-> a]
E(key, val) == [key |-> key, val |-> val]
Stmt(x, e) == [var |-> x, rhs |-> e]
Res(n) == [k |-> "res", v |-> n]
Undef == [k |-> "undef"]
Min2(a, b) == IF a < b THEN a ELSE b

-----------------------------------------------------------------------------
(* String literals: abstract names with their content as pieces.           *)
StrText(nm) ==
  CASE nm = "s_abc"    -> <<"abc">>
    [] nm = "s_empty"  -> <<>>
    [] nm = "s_comma"  -> <<"a,b, c">>
    [] nm = "s_brack"  -> <<"x]y[z">>
    [] nm = "s_paren"  -> <<"p)(q">>
    [] nm = "s_brace"  -> <<"{b}:c">>
    [] nm = "s_open"   -> <<"smile :( [">>
    [] nm = "s_close"  -> <<"c]) }">>
    [] nm = "s_eq"     -> <<"k=v">>
    [] nm = "s_sq"     -> <<"it", "<sq>", "s">>
    [] nm = "s_dq"     -> <<"say ", "<dq>", "hi", "<dq>">>
    [] nm = "s_space"  -> <<" a  b ">>
    [] nm = "b1"       -> <<"bkt-one_host1">>
    [] nm = "b2"       -> <<"bkt-two_host2">>
    [] nm = "bkt"      -> <<"bkt-">>
    [] nm = "nobucket" -> <<"no-such-bucket">>
    [] nm = "host2"    -> <<"host2">>
    [] nm = "app"      -> <<"app">>
    [] nm = "title"    -> <<"title">>
    [] nm = "url"      -> <<"url">>
    [] nm = "x"        -> <<"x">>
    [] nm = "re1"      -> <<"al">>
    [] nm = "c1"       -> <<"c1">>
    [] nm = "c2"       -> <<"c2">>
    [] nm = "tagA"     -> <<"tagA">>
    [] nm = "regex"    -> <<"regex">>
    [] nm = "qname"    -> <<"qname">>
    [] OTHER           -> <<nm>>
PoolNames == {"s_abc", "s_empty", "s_comma", "s_brack", "s_paren", "s_brace", "s_open", "s_close", "s_eq", "s_sq", "s_dq", "s_space", "b1", "b2", "bkt",
              "nobucket", "host2", "app", "title", "url", "x", "re1", "c1", "c2", "tagA", "regex", "qname", "select_keys"}

RECURSIVE Flatten(_)
Flatten(ss) == IF ss = <<>> THEN <<>> ELSE Head(ss) \o Flatten(Tail(ss))
RECURSIVE Join(_, _)
Join(ss, sep) == IF ss = <<>> THEN <<>> ELSE IF Len(ss) = 1 THEN ss[1] ELSE ss[1] \o sep \o Join(Tail(ss), sep)

\* a string literal in quote style q ("<sq>" or "<dq>"): inner occurrences of q are escaped with a backslash
Quote(nm, q) == LET body == StrText(nm)
                IN <<q>> \o Flatten([i \in 1..Len(body) |-> IF body[i] = q THEN <<"<bs>", q>> ELSE <<body[i]>>]) \o <<q>>

\* spacing style: pieces placed around the separators , : = ; and the quote style
RECURSIVE Show(_, _)
Show(t, sp) ==
  CASE t.k = "int"  -> <<ToString(t.v)>>
    [] t.k = "str"  -> Quote(t.v, sp.q)
    [] t.k = "var"  -> <<t.v>>
    [] t.k = "list" -> <<"[">> \o Join([i \in 1..Len(t.v) |-> Show(t.v[i], sp)], sp.comma) \o <<"]">>
    [] t.k = "dict" -> <<"{">> \o Join([i \in 1..Len(t.v) |-> Quote(t.v[i].key, sp.q) \o sp.colon \o Show(t.v[i].val, sp)], sp.comma) \o <<"}">>
    [] t.k = "call" -> <<t.f, "(">> \o Join([i \in 1..Len(t.a) |-> Show(t.a[i], sp)], sp.comma) \o <<")">>
ShowProg(p, sp) == sp.lead \o Join([i \in 1..Len(p) |-> <<p[i].var>> \o sp.eq \o Show(p[i].rhs, sp)], sp.semi) \o sp.trail

Tight   == [q |-> "<sq>", comma |-> <<",">>, colon |-> <<":">>, eq |-> <<"=">>, semi |-> <<";">>, lead |-> <<>>, trail |-> <<>>]
Spaced  == [q |-> "<dq>", comma |-> <<" , ">>, colon |-> <<" : ">>, eq |-> <<" = ">>, semi |-> <<" ; ">>, lead |-> <<" ">>, trail |-> <<" ;">>]
Broken  == [q |-> "<sq>", comma |-> <<",", "<nl>", "  ">>, colon |-> <<":", "<nl>">>, eq |-> <<" =", "<nl>", " ">>, semi |-> <<";", "<nl>">>,
            lead |-> <<"<nl>">>, trail |-> <<";", "<nl>">>]
\* separators FIRST on the line (line break / tab before the separator, not only after it)
CommaFirst == [q |-> "<dq>", comma |-> <<"<nl>", ",", "<tab>">>, colon |-> <<"<tab>", ":", "<nl>">>, eq |-> <<"<nl>", "=", "<tab>">>, semi |-> <<"<nl>", ";", "<tab>">>,
               lead |-> <<"<tab>">>, trail |-> <<"<nl>", ";", "<tab>">>]
Styles == <<Tight, Spaced, Broken, CommaFirst>>

-----------------------------------------------------------------------------
(* Meaning. *)
RECURSIVE Pure(_)
Pure(v) == CASE v.k = "res"  -> FALSE
             [] v.k = "list" -> \A i \in 1..Len(v.v) : Pure(v.v[i])
             [] v.k = "dict" -> \A i \in 1..Len(v.v) : Pure(v.v[i].val)
             [] OTHER        -> TRUE

\* result of the n-th call: computed for nop / concat / limit_events on call-free values, otherwise opaque
Apply(f, args, n) ==
  IF f = "nop" /\ args = <<>> THEN I(1)
  ELSE IF f = "concat" /\ Len(args) = 2 /\ args[1].k = "list" /\ args[2].k = "list" /\ Pure(args[1]) /\ Pure(args[2])
       THEN L(args[1].v \o args[2].v)
  ELSE IF f = "limit_events" /\ Len(args) = 2 /\ args[1].k = "list" /\ Pure(args[1]) /\ args[2].k = "int"
       THEN L(SubSeq(args[1].v, 1, Min2(args[2].v, Len(args[1].v))))
  ELSE Res(n)

\* st = [n |-> number of calls so far, log |-> the calls in evaluation order, each [f, a (argument values)]]
RECURSIVE EvalE(_, _, _), EvalSeq(_, _, _)
EvalE(t, env, st) ==
  CASE t.k \in {"int", "str"} -> [val |-> t, st |-> st]
    [] t.k = "var"  -> [val |-> IF t.v \in DOMAIN env THEN env[t.v] ELSE Undef, st |-> st]
    [] t.k = "list" -> LET r == EvalSeq(t.v, env, st) IN [val |-> L(r.vals), st |-> r.st]
    [] t.k = "dict" -> LET r == EvalSeq([i \in 1..Len(t.v) |-> t.v[i].val], env, st)
                       IN [val |-> D([i \in 1..Len(t.v) |-> E(t.v[i].key, r.vals[i])]), st |-> r.st]
    [] t.k = "call" -> LET r == EvalSeq(t.a, env, st)                       \* arguments first, in written order
                           n == r.st.n + 1
                       IN [val |-> Apply(t.f, r.vals, n), st |-> [n |-> n, log |-> Append(r.st.log, [f |-> t.f, a |-> r.vals])]]
EvalSeq(sq, env, st) ==
  IF sq = <<>> THEN [vals |-> <<>>, st |-> st]
  ELSE LET h == EvalE(Head(sq), env, st)
           r == EvalSeq(Tail(sq), env, h.st)
       IN [vals |-> <<h.val>> \o r.vals, st |-> r.st]

Env0 == [x \in {"True", "true", "False", "false", "NAME"} |->
           IF x \in {"True", "true"} THEN B(TRUE) ELSE IF x = "NAME" THEN S("qname") ELSE B(FALSE)]
RECURSIVE RunFrom(_, _, _)
RunFrom(p, env, st) ==
  IF p = <<>> THEN [env |-> env, st |-> st]
  ELSE LET r == EvalE(Head(p).rhs, env, st)
       IN RunFrom(Tail(p), [x \in DOMAIN env \cup {Head(p).var} |-> IF x = Head(p).var THEN r.val ELSE env[x]], r.st)
Run(p) == LET r == RunFrom(p, Env0, [n |-> 0, log |-> <<>>])
          IN [result |-> IF "RETURN" \in DOMAIN r.env THEN r.env["RETURN"] ELSE Undef, log |-> r.st.log]

\* a recorded value r agrees with a planned value p; rets[n] is the recorded return value of call n
RECURSIVE Match(_, _, _)
Match(p, r, rets) ==
  IF p.k = "res" THEN p.v <= Len(rets) /\ (r = p \/ r = rets[p.v])
  ELSE IF p.k = "list" THEN r.k = "list" /\ Len(r.v) = Len(p.v) /\ \A i \in 1..Len(p.v) : Match(p.v[i], r.v[i], rets)
  ELSE IF p.k = "dict" THEN /\ r.k = "dict" /\ Len(r.v) = Len(p.v)
                            /\ \A i \in 1..Len(p.v) : \E j \in 1..Len(r.v) : r.v[j].key = p.v[i].key /\ Match(p.v[i].val, r.v[j].val, rets)
  ELSE r = p

\* the recorded execution (call log + result) is the one the program text denotes
ExecClause(p, rec) ==
  LET want == Run(p)
      rets == [i \in 1..Len(rec.log) |-> rec.log[i].ret]
  IN
  IF rec.out # "ok" THEN "well-formed-program-rejected"
  ELSE IF Len(rec.log) # Len(want.log) THEN "number-of-function-applications-differs"
  ELSE IF \E i \in 1..Len(want.log) : rec.log[i].f # want.log[i].f THEN "wrong-function-applied-or-wrong-order"
  ELSE IF \E i \in 1..Len(want.log) : Len(rec.log[i].a) # Len(want.log[i].a) THEN "argument-dropped-or-added"
  ELSE IF \E i \in 1..Len(want.log) : \E j \in 1..Len(want.log[i].a) : ~Match(want.log[i].a[j], rec.log[i].a[j], rets) THEN "argument-value-differs"
  ELSE IF ~Match(want.result, rec.result, rets) THEN "result-differs-from-denoted-value"
  \* categorize / tag: what the registered built-in returned equals the transform of that name applied to the arguments as
  \* written (rule dictionaries turned into rules one by one) - compared by the harness on copies taken before the call
  ELSE IF rec.wrapdiff # <<>> THEN "built-in-did-not-apply-the-transform-to-the-written-arguments"
  ELSE "none"
=============================================================================
