---------------------------- MODULE MC_AwStore ----------------------------
(* Bounded instances of AwStore for exhaustive checking with TLC.          *)
(*   MC_AwStore_events.cfg    : one metadata value, rich event space       *)
(*   MC_AwStore_lifecycle.cfg : rich metadata, at most one event a bucket  *)
EXTENDS AwStore

\* event-focused instance: a single metadata value
MetasE  == [type : {"s1"}, client : {"s1"}, host : {"s1"}, name : {"s1"}, data : {"m0"}, created : {0}]
FieldsE == [type : {"-"}, client : {"-"}, host : {"-"}, name : {"-"}, data : {"m1"}]
\* lifecycle-focused instance
MetasL  == [type : {"s1", "s2"}, client : {"s1"}, host : {"s1"}, name : {"s1", "None"}, data : {"m0", "m1"}, created : {0, 1}]
FieldsL == [type : {"s2", "-"}, client : {"s2", "-"}, host : {"-"}, name : {"s2", "-"}, data : {"m1", "-"}]

AtMostOne(S) == {{}} \cup {{x} : x \in S}
\* bulk payloads of the bounded model: at most one upsert; none, one, or two equal-valued new events
BulkNews == AtMostOne(Evs) \cup UNION {{{x, y} : y \in {z \in Evs : z.ts = x.ts /\ z.dur = x.dur /\ z.d = x.d /\ z.id > x.id}} : x \in Evs}
MCOps(s) ==
       {[op |-> "create", b |-> b, meta |-> m, nm |-> nm] : b \in Buckets, m \in Metas, nm \in Strs}
  \cup {[op |-> "update", b |-> b, f |-> f] : b \in Buckets, f \in Fields}
  \cup {[op |-> "delete_bucket", b |-> b] : b \in Buckets}
  \cup {[op |-> "absent", b |-> b, kind |-> k, out |-> AbsentOutcome(k)] :
            b \in Buckets, k \in {"lookup", "describe", "update", "delete"}}
  \cup {[op |-> "insert", b |-> b, ev |-> e] : b \in Buckets, e \in Evs}
  \cup {[op |-> "bulk", b |-> b, ups |-> u, news |-> n] : b \in Buckets, u \in AtMostOne(Evs), n \in BulkNews}
  \cup {[op |-> "replace", b |-> b, ev |-> e] : b \in Buckets, e \in Evs}
  \cup {[op |-> "replace_last", b |-> b, ev |-> e] : b \in Buckets, e \in Evs}
  \cup {[op |-> "delete", b |-> b, id |-> i] : b \in Buckets, i \in Ids}
  \cup UNION {{[op |-> "foreign", b |-> b, id |-> i, post |-> p] :
                  p \in (IF s[b].ex THEN {s[b].evs} \cup {s[b].evs \cup {e} : e \in {x \in Evs : x.id = i}} ELSE {})}
              : b \in Buckets, i \in Ids}
=============================================================================
