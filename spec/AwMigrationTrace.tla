---------------------------- MODULE AwMigrationTrace ----------------------------
(* Judge for C14: recorded first-open of the default SQLite store beside real legacy peewee databases. *)
EXTENDS Integers, Sequences, FiniteSets, TLC, TLCExt, Json, IOUtils

Traces == JsonDeserialize(IOEnv.TRACE_FILE)
VARIABLES tid, l
vars == <<tid, l>>
T == Traces[tid]
R == T[l]
SeqSet(sq) == {sq[i] : i \in 1..Len(sq)}
BIds(d) == {b.id : b \in SeqSet(d)}
B(d, i) == CHOOSE b \in SeqSet(d) : b.id = i
CountV(evs, v) == Cardinality({k \in 1..Len(evs) : evs[k].v = v})
SameBag(e1, e2) == Len(e1) = Len(e2) /\ \A k \in 1..Len(e1) : CountV(e1, e1[k].v) = CountV(e2, e1[k].v)
Clause(r) ==
  IF ~r.bytes_same THEN "legacy-file-modified"
  ELSE IF r.out # "ok" THEN "opening-the-new-store-raised"
  ELSE IF ~r.has_legacy THEN (IF r.new = <<>> THEN "none" ELSE "buckets-appeared-without-a-legacy-file-of-this-profile")
  ELSE IF Cardinality(BIds(r.new)) # Len(r.new) THEN "bucket-duplicated"
  ELSE IF BIds(r.new) # BIds(r.legacy) THEN "bucket-missing-or-extra"
  ELSE IF \E i \in BIds(r.legacy) : B(r.new, i).meta # B(r.legacy, i).meta THEN "bucket-metadata-differs"
  ELSE IF \E i \in BIds(r.legacy) : Len(B(r.new, i).evs) < Len(B(r.legacy, i).evs) THEN "events-dropped"
  ELSE IF \E i \in BIds(r.legacy) : Len(B(r.new, i).evs) > Len(B(r.legacy, i).evs) THEN "events-duplicated"
  ELSE IF \E i \in BIds(r.legacy) : ~SameBag(B(r.legacy, i).evs, B(r.new, i).evs) THEN "event-instant-duration-or-data-differs"
  ELSE "none"
Init == tid \in 1..Len(Traces) /\ l = 1
Next == l <= Len(T) /\ l' = l + 1 /\ UNCHANGED tid
Spec == Init /\ [][Next]_vars
Verdict ==
  IF l > Len(T) THEN PrintT(<<"ACCEPT", tid>>)
  ELSE IF Clause(R) # "none" THEN PrintT(<<"REJECT", tid, l, R.profile, Clause(R)>>)
  ELSE TRUE
=============================================================================
