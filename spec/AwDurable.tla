------------------------------ MODULE AwDurable ------------------------------
(***************************************************************************)
(* Durability of the file-backed stores (C06, C18).                        *)
(*                                                                         *)
(* Every operation issues a group of elementary writes (event inserted /   *)
(* rewritten / removed, bucket row created / updated / removed) in issue   *)
(* order.  `issued` counts them, `durable` is the length of the prefix a   *)
(* fresh connection (or a reopen after SIGKILL) sees.  This module is the  *)
(* design layer of the lazily-committing store: the commit policy of       *)
(* conditional_commit as a counter/age automaton, one action per public    *)
(* operation, with the property layer (what C06/C18 demand at operation    *)
(* boundaries) stated as invariants over it.  The policy's knobs are       *)
(* constants, so TLC can check the repaired design and refute the pinned   *)
(* one (deletes not counted, age test reversed) from the same text.        *)
(***************************************************************************)
EXTENDS Integers, FiniteSets, Sequences, TLC, TLCExt, Json

CONSTANTS Threshold,        \* commit when more than this many statements are buffered (50)
          AgeLimit,         \* commit when the last commit is older than this many seconds (10)
          DeletesCounted,   \* BOOLEAN: does an event deletion go through conditional_commit
          AgeTestReversed,  \* BOOLEAN: the pinned tree's (last_commit - now) > 10 s
          MaxBuffered,      \* property layer: "a few dozen (about 50)" -> 64
          AgeMust,          \* property layer: "more than about ten seconds" -> 15
          MigrationCommits, \* BOOLEAN: is the data migrated from a legacy database committed before the counter starts at 0
          BulkDecidesOnce,  \* BOOLEAN: a bulk write of id-carrying and new events takes ONE commit decision after its last
                            \*          statement (repaired); FALSE: every id-carrying event decides for itself (pinned insert_many)
          BulkSizes,        \* sizes of bulk inserts explored
          TickSizes,        \* virtual-clock increments explored
          MaxIssued, MaxTime

VARIABLES issued,       \* elementary writes issued so far
          durable,      \* length of the durable prefix
          counter,      \* the implementation's num_uncommitted_statements
          now,          \* virtual clock (s)
          lastCommit,   \* the implementation's last_commit
          lastFlush,    \* property layer: when the durable prefix last caught up / advanced
          last          \* kind of the operation that returned last, and when the previous flush was

vars == <<issued, durable, counter, now, lastCommit, lastFlush, last>>

Commit == /\ durable' = issued'
          /\ counter' = 0
          /\ lastCommit' = now
          /\ lastFlush' = now
NoCommit == UNCHANGED <<durable, lastCommit, lastFlush>>

AgeFires == IF AgeTestReversed THEN (lastCommit - now) > AgeLimit ELSE (now - lastCommit) > AgeLimit

\* conditional_commit(n) after issuing n statements
Conditional(n) ==
  LET c == counter + n IN
  IF c > Threshold \/ AgeFires
  THEN Commit
  ELSE counter' = c /\ NoCommit

EventWrite(n, kind) ==
  /\ issued' = issued + n
  /\ IF kind = "delete" /\ ~DeletesCounted THEN counter' = counter /\ NoCommit ELSE Conditional(n)
  /\ last' = [kind |-> "event", prevFlush |-> lastFlush, at |-> now, op |-> kind, n |-> n]
  /\ UNCHANGED now

\* insert([k id-carrying events, then new events]): k + 1 statements.  Repaired: one decision for the call.  Pinned: the
\* first id-carrying event decides alone (and resets the clock when it commits), the others decide after it, each for itself -
\* folded here into "the first statement, then the rest"
BulkUpsert(k) ==
  /\ k >= 1
  /\ issued' = issued + k + 1
  /\ IF BulkDecidesOnce THEN Conditional(k + 1)
     ELSE LET c1 == counter + 1
              fire1 == c1 > Threshold \/ AgeFires
              counter1 == IF fire1 THEN 0 ELSE c1
              lc1 == IF fire1 THEN now ELSE lastCommit
              c2 == counter1 + k
              fire2 == c2 > Threshold \/ (now - lc1) > AgeLimit
          IN IF fire2 THEN Commit
             ELSE /\ counter' = c2
                  /\ IF fire1 THEN durable' = issued + 1 /\ lastCommit' = now /\ lastFlush' = now ELSE NoCommit
  /\ last' = [kind |-> "event", prevFlush |-> lastFlush, at |-> now, op |-> "upsert", n |-> k]
  /\ UNCHANGED now

\* create / update / delete of a bucket: 1 or 2 elementary writes, then an unconditional commit
BucketOp(n) ==
  /\ issued' = issued + n
  /\ Commit
  /\ last' = [kind |-> "bucket", prevFlush |-> lastFlush, at |-> now, op |-> "bucket", n |-> n]
  /\ UNCHANGED now

\* every read commits first
Read ==
  /\ UNCHANGED issued
  /\ Commit
  /\ last' = [kind |-> "read", prevFlush |-> lastFlush, at |-> now, op |-> "read", n |-> 0]
  /\ UNCHANGED now

\* an operation that raises (replace-last on an empty bucket, update / delete of a bucket that does not exist):
\* it issues no write; whether it flushes what is pending is free, but it must not leave anything that
\* makes later completed operations less durable
FailedOp ==
  /\ UNCHANGED <<issued, now>>
  /\ \/ Commit
     \/ (UNCHANGED counter /\ NoCommit)
  /\ last' = [kind |-> "failed", prevFlush |-> lastFlush, at |-> now, op |-> "fail", n |-> 0]

\* first creation of the store beside a legacy database: one bucket row (committed by create_bucket) and n
\* migrated events issued through conditional_commit; afterwards the bookkeeping starts from zero
Migrate(n) ==
  /\ issued = 0 /\ last.kind = "init"
  /\ issued' = 1 + n
  /\ durable' = IF MigrationCommits \/ n > Threshold THEN 1 + n ELSE 1
  /\ counter' = 0 /\ lastCommit' = now /\ lastFlush' = now
  /\ last' = [kind |-> "event", prevFlush |-> lastFlush, at |-> now, op |-> "migrate", n |-> n]
  /\ UNCHANGED now

Tick(d) == /\ now' = now + d
           /\ last' = [kind |-> "tick", prevFlush |-> lastFlush, at |-> now, op |-> "tick", n |-> d]
           /\ UNCHANGED <<issued, durable, counter, lastCommit, lastFlush>>

\* the process dies and the file is reopened: everything buffered is gone
Crash == /\ issued' = durable
         /\ counter' = 0
         /\ lastCommit' = now /\ lastFlush' = now
         /\ last' = [kind |-> "crash", prevFlush |-> lastFlush, at |-> now, op |-> "crash", n |-> 0]
         /\ UNCHANGED <<durable, now>>

Init == /\ issued = 0 /\ durable = 0 /\ counter = 0 /\ now = 0 /\ lastCommit = 0 /\ lastFlush = 0
        /\ last = [kind |-> "init", prevFlush |-> 0, at |-> 0, op |-> "init", n |-> 0]
Next == \/ \E n \in BulkSizes : EventWrite(n, "insert")
        \/ EventWrite(1, "insert") \/ EventWrite(1, "replace") \/ EventWrite(1, "delete")
        \/ \E k \in {1, 2, 3} : BulkUpsert(k)
        \/ \E n \in {1, 2} : BucketOp(n)
        \/ Read
        \/ FailedOp
        \/ \E n \in BulkSizes : Migrate(n)
        \/ \E d \in TickSizes : Tick(d)
        \/ Crash
Spec == Init /\ [][Next]_vars
Bound == issued <= MaxIssued /\ now <= MaxTime

-----------------------------------------------------------------------------
(* Property layer: what must hold whenever an operation has returned. *)

\* C06: at most a few dozen buffered event writes can be missing after a crash
BufferedBounded == issued - durable <= MaxBuffered
\* C06: bucket creation / update / deletion is durable as soon as it returns
BucketOpsDurable == last.kind = "bucket" => durable = issued
\* C06: the durable prefix never shrinks (except that a crash discards the lost tail, which `issued` follows)
DurableMonotone == [][durable' >= durable]_vars
\* C18: an event write issued AgeMust or more after the previous flush is durable when it returns
AgeBound == (last.kind = "event" /\ last.at - last.prevFlush >= AgeMust) => durable = issued
\* design-level inductive invariant (also proved for unbounded histories with Apalache, see MC_AwDurableInd)
CounterExact == counter = issued - durable /\ counter <= Threshold /\ durable <= issued

\* behaviour generation (simulation mode): print the operation sequence of each behaviour of length GenDepth
GenDepth == 16
NoCrashNext == Next /\ last'.op # "crash"
GenSpec == Init /\ [][NoCrashNext]_vars
Emit == TLCGet("level") < GenDepth \/
        LET t == Trace IN PrintT(<<"BEHAVIOUR", ToJson([i \in 1..(Len(t) - 1) |-> [op |-> t[i + 1].last.op, n |-> t[i + 1].last.n]])>>)
=============================================================================
