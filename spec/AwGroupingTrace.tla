---------------------------- MODULE AwGroupingTrace ----------------------------
(* Judge for C16: recorded calls of merge_events_by_keys, chunk_events_by_key, sort_by_*, limit_events,  *)
(* sum_durations, concat, filter_keyvals / exclude_keyvals, filter_keyvals_regex against the relations of AwGrouping.                  *)
EXTENDS AwGrouping, TLC, TLCExt, Json, IOUtils

Traces == JsonDeserialize(IOEnv.TRACE_FILE)
VARIABLES tid, l
vars == <<tid, l>>
T == Traces[tid]
R == T[l]
Clause(r) ==
  CASE r.op = "merge"  -> MergeClause(r.inp, r.keys, r.out, r.inp2)
    [] r.op = "chunk"  -> ChunkClause(r.inp, r.key, r.out, r.inp2)
    [] r.op = "sort"   -> SortClause(r.inp, r.by, r.out, r.inp2)
    [] r.op = "limit"  -> LimitClause(r.inp, r.n, r.out, r.inp2)
    [] r.op = "sum"    -> SumClause(r.inp, r.total, r.inp2)
    [] r.op = "filter" -> FilterClause(r.inp, r.key, r.vals, r.outf, r.outx, r.inp2)
    [] r.op = "concat" -> ConcatClause(r.inp, r.inpb, r.out, r.inp2, r.inpb2)
    [] r.op = "regex"  -> RegexClause(r.inp, r.key, r.rx, r.out, r.inp2)
    [] r.op = "raised" -> "transform-raised"
    [] OTHER           -> "unknown-record"
Init == tid \in 1..Len(Traces) /\ l = 1
Next == l <= Len(T) /\ l' = l + 1 /\ UNCHANGED tid
Spec == Init /\ [][Next]_vars
Verdict ==
  IF l > Len(T) THEN PrintT(<<"ACCEPT", tid>>)
  ELSE IF Clause(R) # "none" THEN PrintT(<<"REJECT", tid, l, R.op, Clause(R)>>)
  ELSE TRUE
=============================================================================
