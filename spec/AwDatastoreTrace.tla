---------------------------- MODULE AwDatastoreTrace ----------------------------
(* Judge for the wrapper design layer (C05): every edge of AwDatastoreDesign's state graph, replayed on the real      *)
(* Datastore over each backend and followed by a lookup of every bucket id.  A record is                               *)
(* [op, b, pre |-> [stored], res, stored]: the keys of storage.buckets() before and after the call and what the call   *)
(* did.  Only what a caller can see is judged: the handle cache itself is an implementation detail (a wrapper without  *)
(* any cache satisfies the property), so Eff - the text TLC model-checked - is evaluated on the observed bucket table  *)
(* with an empty cache; by CacheSound its outcome and table do not depend on which sound cache is plugged in.  A cache *)
(* that went stale shows up as a lookup that answers although the table has no such bucket.                           *)
EXTENDS AwDatastoreDesign, Sequences, TLCExt, Json, IOUtils
Traces == JsonDeserialize(IOEnv.TRACE_FILE)
VARIABLES tid, l
tvars == <<tid, l, vars>>
T == Traces[tid]
R == T[l]
ToSet(sq) == {sq[i] : i \in 1..Len(sq)}
Clause(r) ==
  LET e == Eff(r.op, r.b, ToSet(r.pre.stored), {}) IN
  IF r.res # e.res THEN "wrapper-outcome"
  ELSE IF ToSet(r.stored) # e.s THEN "wrapper-bucket-table"
  ELSE "none"
\* the design's own variables are not used by the judge (Eff is evaluated on observed states): they stay at Init
TInit == tid \in 1..Len(Traces) /\ l = 1 /\ Init
TNext == l <= Len(T) /\ l' = l + 1 /\ UNCHANGED <<tid, vars>>
TSpec == TInit /\ [][TNext]_tvars
Verdict ==
  IF l > Len(T) THEN PrintT(<<"ACCEPT", tid>>)
  ELSE IF Clause(R) # "none" THEN PrintT(<<"REJECT", tid, l, R.op, Clause(R)>>)
  ELSE TRUE
=============================================================================
