CONSTANTS
  Buckets = {"A", "B"}
  Ticks = {0, 1}
  Durs = {0}
  Datas = {"d1"}
  Ids = {0, 1}
  Strs = {"s1", "s2"}
  MDatas = {"m0", "m1"}
  MaxEvs = 1
  Metas <- MetasL
  Fields <- FieldsL
  Ops <- MCOps
SPECIFICATION Spec
INVARIANT TypeOK
INVARIANT IdsUniquePerBucket
PROPERTY Frame
PROPERTY CreatedEmpty
PROPERTY CreatedStable
