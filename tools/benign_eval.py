#!/venv/bin/python
"""Property-preserving changes must not raise an alarm: for every /verif/seeded/benign-*/ apply the patch to a scratch
worktree (never /repo), run the pinned suite and the listed quick checks against that tree, expect exit 0 everywhere."""
import json
import os
import re
import subprocess
import sys

VERIF = os.path.dirname(os.path.dirname(os.path.abspath(__file__)))
WT = "/tmp/wt/benign"


def sh(cmd, **kw):
    return subprocess.run(cmd, shell=True, stdout=subprocess.PIPE, stderr=subprocess.STDOUT, text=True, **kw)


def main():
    names = [a for a in sys.argv[1:]] or sorted(d for d in os.listdir(os.path.join(VERIF, "seeded")) if d.startswith("benign-"))
    if not os.path.isdir(WT):
        sh("git -C /repo worktree add -q --detach %s HEAD" % WT)
    sh("git -C %s checkout -q --detach $(git -C /repo rev-parse HEAD)" % WT)
    bad = 0
    for name in names:
        d = os.path.join(VERIF, "seeded", name)
        meta = json.load(open(os.path.join(d, "meta.json")))
        sh("git -C %s checkout -q -- . && git -C %s clean -fdq" % (WT, WT))
        if sh("git -C %s apply %s" % (WT, os.path.join(d, "patch.diff"))).returncode:
            print(name, "PATCH DOES NOT APPLY")
            continue
        env = dict(os.environ, PYTHONPATH=WT)
        for k in ("DATA", "CONFIG", "CACHE", "STATE"):
            env["XDG_%s_HOME" % k] = "/dev/shm/benign_xdg/%s" % k.lower()
            os.makedirs(env["XDG_%s_HOME" % k], exist_ok=True)
        t = sh("/venv/bin/python -m pytest -q -p no:cacheprovider --timeout=900", env=env, cwd=WT)
        m = re.search(r"(\d+) passed", t.stdout)
        meta["pinned_suite"] = "%s passed" % (m.group(1) if m else "?") + ("" if t.returncode == 0 else " (FAILED)")
        res = {}
        for p in meta["checks"]:
            e2 = dict(os.environ, AW_REPO=WT, VERIF_EVIDENCE_DIR="/dev/shm/benign_ev", VERIF_OUT_DIR="/dev/shm/benign_out")
            c = subprocess.run([os.path.join(VERIF, "check"), p, "--tier", "quick"], cwd=VERIF, env=e2, stdout=subprocess.PIPE, stderr=subprocess.STDOUT, text=True)
            first = next((l.strip() for l in c.stdout.splitlines() if l.startswith("  ") and "VIOLATION" not in l), "")
            res[p] = {"exit": c.returncode, "first": first[:300]}
            if c.returncode != 0:
                bad += 1
            print("%-45s %s exit=%d %s  [suite: %s]" % (name, p, c.returncode, first[:140], meta["pinned_suite"]))
        meta["quick_checks"] = res
        meta["silent"] = all(v["exit"] == 0 for v in res.values())
        json.dump(meta, open(os.path.join(d, "meta.json"), "w"), indent=1, sort_keys=True)
    sh("git -C %s checkout -q -- . && git -C %s clean -fdq" % (WT, WT))
    return 1 if bad else 0


if __name__ == "__main__":
    sys.exit(main())
