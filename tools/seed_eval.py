#!/venv/bin/python
"""Evaluate seeded breaking changes: for every /verif/seeded/<name>/ (patch.diff + meta.json) apply the patch to a
scratch worktree of /repo (never to /repo itself), run the quick check(s) of the property it breaks against that
tree (AW_REPO), and record which checks reported a violation.  Usage: tools/seed_eval.py [name ...] [--tier quick]"""
import json
import os
import subprocess
import sys
import time

VERIF = os.path.dirname(os.path.dirname(os.path.abspath(__file__)))
WT = os.environ.get("SEED_WT", "/tmp/wt/eval")


def sh(cmd, **kw):
    return subprocess.run(cmd, shell=True, stdout=subprocess.PIPE, stderr=subprocess.STDOUT, text=True, **kw)


def main():
    args = [a for a in sys.argv[1:] if not a.startswith("--")]
    tier = "thorough" if "--thorough" in sys.argv else "quick"
    also = [a.split("=")[1].split(",") for a in sys.argv if a.startswith("--also=")]
    also = also[0] if also else []
    if not os.path.isdir(WT):
        r = sh("git -C /repo worktree add -q --detach %s HEAD" % WT)
        if r.returncode:
            print(r.stdout)
            return 2
    sh("git -C %s checkout -q --detach $(git -C /repo rev-parse HEAD)" % WT)
    names = args or sorted(os.listdir(os.path.join(VERIF, "seeded")))
    scratch_ev = "/dev/shm/seed_eval_evidence"
    os.makedirs(scratch_ev, exist_ok=True)
    for name in names:
        d = os.path.join(VERIF, "seeded", name)
        mp = os.path.join(d, "meta.json")
        if not os.path.isfile(mp):
            continue
        meta = json.load(open(mp))
        if "property" not in meta or meta.get("neutralised_by") or meta.get("outside_reading"):
            continue
        sh("git -C %s checkout -q -- . && git -C %s clean -fdq" % (WT, WT))
        r = sh("git -C %s apply %s" % (WT, os.path.join(d, "patch.diff")))
        if r.returncode:
            print(name, "PATCH DOES NOT APPLY", r.stdout[-300:])
            continue
        props = [meta["property"]] + [p for p in also if p != meta["property"]]
        res = {}
        for p in props:
            t0 = time.time()
            env = dict(os.environ, AW_REPO=WT, VERIF_EVIDENCE_DIR=scratch_ev, VERIF_OUT_DIR="/dev/shm/seed_eval_out")
            c = subprocess.run([os.path.join(VERIF, "check"), p, "--tier", tier], cwd=VERIF, env=env, stdout=subprocess.PIPE, stderr=subprocess.STDOUT, text=True)
            nviol = c.stdout.count("VIOLATION property=")
            first = next((l.strip() for l in c.stdout.splitlines() if l.startswith("  ") and "VIOLATION" not in l), "")
            res[p] = {"exit": c.returncode, "violation_lines": nviol, "first": first[:300], "wall_s": round(time.time() - t0, 1)}
            print("%-28s %s %s exit=%d %s" % (name, p, tier, c.returncode, first[:160]))
        meta.setdefault("detected", {})[tier] = res
        meta["detected_by_quick_check_of_its_property"] = bool(meta.get("detected", {}).get("quick", {}).get(meta["property"], {}).get("exit") == 1) if "quick" in meta.get("detected", {}) else None
        json.dump(meta, open(mp, "w"), indent=1, sort_keys=True)
    sh("git -C %s checkout -q -- . && git -C %s clean -fdq" % (WT, WT))
    return 0


if __name__ == "__main__":
    sys.exit(main())
