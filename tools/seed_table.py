#!/venv/bin/python
"""Regenerate DESIGN.md section 13 from /verif/seeded/*/meta.json."""
import glob
import json
import os

VERIF = os.path.dirname(os.path.dirname(os.path.abspath(__file__)))


def first_sentence(t, n=230):
    t = " ".join(t.split())
    return (t[:n] + "...") if len(t) > n else t


def main():
    rows, brow, neutral, outside = [], [], [], []
    for d in sorted(glob.glob(os.path.join(VERIF, "seeded", "*"))):
        mp = os.path.join(d, "meta.json")
        if not os.path.isfile(mp):
            continue
        m = json.load(open(mp))
        name = os.path.basename(d)
        if m.get("kind") == "benign":
            res = m.get("quick_checks", {})
            brow.append("| `%s` | %s | %s | %s |" % (name, first_sentence(m["why_property_preserving"], 300), ", ".join(m["checks"]),
                                                 "silent" if m.get("silent") else "ALARM " + ", ".join(k for k, v in res.items() if v["exit"] != 0)))
            continue
        q = m.get("detected", {}).get("quick", {}).get(m["property"], {})
        verdict = {1: "reported", 0: "MISSED", 2: "machinery failure"}.get(q.get("exit"), "not run")
        if m.get("neutralised_by"):
            neutral.append("| `%s` | %s | %s |" % (name, m["property"], first_sentence(m["neutralised_by"], 400)))
            continue
        if m.get("outside_reading"):
            outside.append("| `%s` | %s | %s |" % (name, m["property"], first_sentence(m["outside_reading"], 900)))
            continue
        clause = first_sentence(q.get("first", ""), 160).replace("|", "/")
        rows.append("| `%s` | %s | %s | %s | %s |" % (name, m["property"], first_sentence(m.get("needs_to_manifest", ""), 260).replace("|", "/"), verdict, clause))
    ndet = sum(1 for r in rows if "| reported |" in r)
    txt = ["## 13. Seeded breaking changes and which checks catch them", "",
           "Independent sub-agents were given only the text of one property and a scratch worktree, and asked for changes that break the property while the pinned suite still passes "
           "(ten rounds: 40, 40, 40, 20, 20, 20, 40, 40, 40 and 40 changes; from round 8 on every agent was also given the list of what earlier rounds had produced for its property, with the request not to repeat it; the second round asked for interactions between features, state left by earlier calls, unusual legal values, error paths, cooperating edits; the third to tenth for "
           "code sites, backends and triggers the earlier rounds were unlikely to have tried). "
           "Each change was confirmed in a scratch worktree by `tools/seed_import.py` (demo passes unchanged, pinned suite 156 passed with the change, demo fails with the change) and is kept under "
           "`seeded/<name>/` (patch.diff, demo.py, meta.json). `tools/seed_eval.py` applies each patch to a scratch worktree (never /repo), points the quick check of its property at that tree (`AW_REPO`) "
           "and records the outcome. **%d of %d seeded changes are reported by the quick check of their own property** on the current machinery." % (ndet, len(rows)), "",
           "On first evaluation the checks of the time missed 9 of 40 (round 1), 14 of 40 (round 2), 8 of 40 (round 3), 10 of 20 (round 4, which went to the ten properties with the highest earlier miss rates), 3 of 20 (round 5, the other ten properties), 7 of 20 (round 6, the first ten again) 8 of 40 (round 7, all properties; by then many submissions repeated earlier ideas), 12 of 40 (round 8), 19 of 40 (round 9; the lists of earlier ideas pushed the agents to code sites and mechanisms nobody had touched) and 10 of 40 (round 10); every miss was analysed and the generators / judges strengthened until it was reported "
           "(never by special-casing the seeded input). What was added in response: runs of calls without intermediate reads judged as one batch "
           "(lazy-commit / rollback / cache interactions), total projection (an unreadable bucket is an observation, not a harness crash), deletes of ids that live in another bucket, "
           "out-of-contract and absurd ids ending a no-read run, stale `Bucket` handles described in every projection, bucket re-creation in the ownership model, window edges placed at the ends of "
           "long events, raising operations / bulk-upsert runs / migration starts / day-scale clock ticks in the durability histories, the sharper observed-flush rule of C18, a twin bucket fed the same "
           "heartbeat stream, variable re-use and re-read programs, faults after `RETURN`, comparison of every `query_bucket` return with a direct read, in-place mutation between two serialisations, "
           "multi-thousand-event legacy buckets, one event spanning many, list-valued merge keys, inline / out-of-order TOML tables; after round 3: pulsetimes whose product with 1000 is inexact in floating point, "
           "heartbeat streams at 6 h per tick (merged events beyond 24 h), duplicate-create failures in durability histories, the same object repeated in a bulk list, instants before the epoch written as 1970 local times, "
           "multi-day durations in sorting, two-token regexes (adjacent tokens inside one value), leaves whose text coincides across types; after round 4: regexes that match the empty string and the same values "
           "under other keys in one call (C19), zero-byte / blank / comment-only user files (C20), trickles whose gaps are each below the age limit (C18), re-assignment through the timestamp setter after a first "
           "serialisation and zones in their repeated hour (`fold=1`) (C13), negative integers and mixed ids in grouping inputs, a transform / read / construction that raises is a judged record instead of a "
           "machinery failure (C03, C07-C10, C13, C15, C16, C19), the same statement text twice with a rebinding in between and separators placed first on the line (C11); after rounds 5-6: frame probes - a run of writes without reads, one call addressed to another bucket, "
           "one observation, with a control execution of the same history without that call (C04), Event / Rule objects that went through an earlier call with other values (C09, C10, C15, C16, C19), legacy stores written by "
           "separate processes and both profiles first-opened in one process (C14), a bucket listing that cannot be produced is an observation (C05), deletion of buckets with more than a thousand events with every statement a "
           "crash point (C06), a uniform sub-millisecond part on every duration of a heartbeat stream (C07), data / id reassignment between two serialisations (C13), regexes containing blanks (C19), raw unicode line separators "
           "and multi-line strings in TOML (C20), and the stricter reading of 'the previous flush' that exposed F17 (C18); after round 7: event objects that carry an id of their own handed to replace_last and a sub-millisecond part on every duration of a store history (C02), "
           "bucket contents whose events reached their instants by replacement (C03), interval pieces of whole days (C09), a failed query followed by a change of the bucket and the same window again (C12), heartbeats built from ISO strings with "
           "varying offsets (C07), data dicts built in different key orders (C16), bulk writes beyond internal chunk sizes after idle time (C18); after rounds 8-9: canaries paired with control records, a wider corruption alphabet and stale-bucket query sequences (C17), strings whose brackets do not balance, "
           "categorize / tag built-ins compared with the transform on the written arguments, list-valued filter values (C11), `$`-keys, values longer than a thousand characters, case pairs only the regex engine relates, one rule dict used for several rules (C19), "
           "a spectator bucket whose id differs only in letter case, a second live Datastore with the same bucket id, equal data in different number types (C07/C08), zones at +00:00 that are not UTC and both readings of a repeated hour in one process (C13), "
           "the same bucket ids in both profiles, ids equal up to case, unpaired surrogates in legacy data (C14), orderly reopen followed by a slow trickle and workers living east of UTC (C18), id 0, results annotated by the caller (C09), duplicate ids and "
           "tuple-versus-list data (C10), windows around the wall-clock present (C12), look-alike ids for absent-bucket calls (C05), hand-outs through limited listings (C01), arrays of tables (C20); after round 10: data values equal in Python but different as JSON and metadata handed out by the datastore listing (C01), a single insert of an event carrying another bucket's id (C04), an event write through the handle of a deleted bucket before an absent-bucket call (C05), heartbeat-style runs of more than fifty last-event rewrites, payloads that outgrow SQLite's page cache and a total observation of damaged files (C06), text that is not in composed normal form (C07), query_bucket compared with a direct windowed read inside every query (C11), a second bucket whose id differs in letter case only (C12), null-valued data keys (C13).", "",
           "| seeded change | property | what it needs in order to manifest | quick check | first reported line |", "|---|---|---|---|---|"] + rows + ["",
           "Seeded changes that stopped being breaking changes when a genuine defect was repaired (kept for the record, not counted above):", "",
           "| seeded change | property | why it no longer breaks the property |", "|---|---|---|"] + neutral + ["",
           "Seeded changes that are not violations under the reading of the property that the specification fixes (kept for the record, not counted above; silent on purpose):", "",
           "| seeded change | property | why the checks stay silent |", "|---|---|---|"] + outside + ["",
           "### Property-preserving changes (must stay silent)", "",
           "`tools/benign_eval.py` applies each of these to a scratch worktree, runs the pinned suite (must pass) and the listed quick checks (must exit 0).", "",
           "| change | why it preserves the properties | checks run | result |", "|---|---|---|---|"] + brow + [""]
    p = os.path.join(VERIF, "DESIGN.md")
    s = open(p).read()
    a = s.index("## 13. Seeded breaking changes")
    s = s[:a] + "\n".join(txt)
    open(p, "w").write(s)
    print("section 13 written: %d seeded (%d reported), %d benign" % (len(rows), ndet, len(brow)))


if __name__ == "__main__":
    main()
