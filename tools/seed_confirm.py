#!/venv/bin/python
"""Re-confirm seeded breaking changes against the CURRENT /repo HEAD (after a fix: commit the patches may have been
rebased): demo passes on the unchanged tree, pinned suite passes with the patch, demo fails with the patch.
Usage: tools/seed_confirm.py name ...   (uses the scratch worktree $SEED_WT, default /tmp/wt/eval; never /repo)"""
import json
import os
import re
import shutil
import subprocess
import sys

VERIF = os.path.dirname(os.path.dirname(os.path.abspath(__file__)))
WT = os.environ.get("SEED_WT", "/tmp/wt/eval")


def sh(cmd, env=None, cwd=None, timeout=1800):
    return subprocess.run(cmd, shell=True, stdout=subprocess.PIPE, stderr=subprocess.STDOUT, text=True, env=env, cwd=cwd, timeout=timeout)


def main():
    if not os.path.isdir(WT):
        sh("git -C /repo worktree add -q --detach %s HEAD" % WT)
    sh("git -C %s checkout -q --detach $(git -C /repo rev-parse HEAD)" % WT)
    head = sh("git -C /repo rev-parse --short HEAD").stdout.strip()
    env = dict(os.environ, PYTHONPATH=WT)
    for k in ("DATA", "CONFIG", "CACHE", "STATE"):
        env["XDG_%s_HOME" % k] = "/dev/shm/seed_confirm_xdg/%s" % k.lower()
        os.makedirs(env["XDG_%s_HOME" % k], exist_ok=True)
    bad = 0
    for name in sys.argv[1:]:
        d = os.path.join(VERIF, "seeded", name)
        demo = os.path.join(d, "demo.py")
        meta = json.load(open(os.path.join(d, "meta.json")))
        sh("git -C %s checkout -q -- . && git -C %s clean -fdq" % (WT, WT))
        shutil.copy(demo, os.path.join(WT, "_demo.py"))
        a = sh("/venv/bin/python _demo.py", env=env, cwd=WT, timeout=600)
        ap = sh("git -C %s apply %s" % (WT, os.path.join(d, "patch.diff")))
        t = sh("/venv/bin/python -m pytest -q -p no:cacheprovider --timeout=900 -x", env=env, cwd=WT) if ap.returncode == 0 else None
        m = re.search(r"(\d+) passed", t.stdout) if t else None
        b = sh("/venv/bin/python _demo.py", env=env, cwd=WT, timeout=600) if ap.returncode == 0 else None
        sh("git -C %s checkout -q -- . && git -C %s clean -fdq" % (WT, WT))
        ok = a.returncode == 0 and ap.returncode == 0 and t.returncode == 0 and m and int(m.group(1)) == 156 and b.returncode == 1
        print("%-14s %s  (demo unchanged=%s, applies=%s, suite=%s, demo changed=%s)" % (
            name, "confirmed" if ok else "NOT CONFIRMED", a.returncode, ap.returncode == 0, m.group(0) if m else "?", b.returncode if b else "-"))
        if ok:
            meta["confirmed"] = {"unchanged_tree_demo_exit": 0, "changed_tree_pinned_suite": "156 passed", "changed_tree_demo_exit": 1,
                                 "demo_output_with_change": b.stdout[-400:], "how": "tools/seed_confirm.py in scratch worktree at repo " + head + " (patch rebased onto that commit)"}
            json.dump(meta, open(os.path.join(d, "meta.json"), "w"), indent=1, sort_keys=True)
        else:
            bad += 1
    return 1 if bad else 0


if __name__ == "__main__":
    sys.exit(main())
