#!/venv/bin/python
"""Confirm and import seeded changes written by a sub-agent: tools/seed_import.py <ID> [<ID> ...]
For /tmp/wt/<ID>/_out/mutant<k>.diff + demo<k>.py: in the scratch worktree /tmp/wt/eval (never /repo)
 (a) unchanged tree: demo exits 0;  (b) with the diff: the pinned suite still passes and the demo exits 1.
Only then the change is kept as /verif/seeded/<ID>-m<k>/{patch.diff, demo.py, meta.json}."""
import json
import os
import re
import shutil
import subprocess
import sys

VERIF = os.path.dirname(os.path.dirname(os.path.abspath(__file__)))
WT = os.environ.get("SEED_WT", "/tmp/wt/eval")


def sh(cmd, env=None, cwd=None, timeout=1800):
    return subprocess.run(cmd, shell=True, stdout=subprocess.PIPE, stderr=subprocess.STDOUT, text=True, env=env, cwd=cwd, timeout=timeout)


def main():
    if not os.path.isdir(WT):
        sh("git -C /repo worktree add -q --detach %s HEAD" % WT)
    sh("git -C %s checkout -q --detach $(git -C /repo rev-parse HEAD)" % WT)
    env = dict(os.environ, PYTHONPATH=WT)
    for k in ("DATA", "CONFIG", "CACHE", "STATE"):
        env["XDG_%s_HOME" % k] = "/dev/shm/seed_import_xdg/%s" % k.lower()
        os.makedirs(env["XDG_%s_HOME" % k], exist_ok=True)
    rnd = next((a.split("=")[1] for a in sys.argv if a.startswith("--round=")), "")
    for pid in [a for a in sys.argv[1:] if not a.startswith("--")]:
        src = "/tmp/wt/%s/_out" % pid
        for k in (1, 2, 3):
            diff, demo, txt = (os.path.join(src, "%s%d.%s" % (n, k, e)) for n, e in (("mutant", "diff"), ("demo", "py"), ("mutant", "txt")))
            if not (os.path.isfile(diff) and os.path.isfile(demo)):
                continue
            name = "%s-%sm%d" % (pid, ("r" + rnd) if rnd else "", k)
            sh("git -C %s checkout -q -- . && git -C %s clean -fdq" % (WT, WT))
            shutil.copy(demo, os.path.join(WT, "_demo.py"))
            a = sh("/venv/bin/python _demo.py", env=env, cwd=WT, timeout=600)
            if a.returncode != 0:
                print(name, "REJECTED: demo does not pass on the unchanged tree:", a.stdout[-300:])
                continue
            ap = sh("git -C %s apply %s" % (WT, diff))
            if ap.returncode != 0:
                print(name, "REJECTED: patch does not apply:", ap.stdout[-300:])
                continue
            t = sh("/venv/bin/python -m pytest -q -p no:cacheprovider --timeout=900 -x", env=env, cwd=WT)
            m = re.search(r"(\d+) passed", t.stdout)
            if t.returncode != 0 or not m or int(m.group(1)) != 156:
                print(name, "REJECTED: pinned suite does not pass with the change:", t.stdout[-400:])
                sh("git -C %s checkout -q -- ." % WT)
                continue
            b = sh("/venv/bin/python _demo.py", env=env, cwd=WT, timeout=600)
            sh("git -C %s checkout -q -- . && git -C %s clean -fdq" % (WT, WT))
            if b.returncode != 1:
                print(name, "REJECTED: demo does not fail (exit %d) with the change:" % b.returncode, b.stdout[-300:])
                continue
            dst = os.path.join(VERIF, "seeded", name)
            os.makedirs(dst, exist_ok=True)
            shutil.copy(diff, os.path.join(dst, "patch.diff"))
            shutil.copy(demo, os.path.join(dst, "demo.py"))
            meta = {"property": pid, "origin": "independent sub-agent given only the property text and a scratch worktree",
                    "needs_to_manifest": open(txt).read().strip() if os.path.isfile(txt) else "",
                    "confirmed": {"unchanged_tree_demo_exit": a.returncode, "changed_tree_pinned_suite": "156 passed", "changed_tree_demo_exit": b.returncode,
                                  "demo_output_with_change": b.stdout[-400:], "how": "tools/seed_import.py in scratch worktree /tmp/wt/eval at repo " + sh("git -C /repo rev-parse --short HEAD").stdout.strip()}}
            json.dump(meta, open(os.path.join(dst, "meta.json"), "w"), indent=1, sort_keys=True)
            print(name, "kept")
    return 0


if __name__ == "__main__":
    sys.exit(main())
