"""Setup-time self test: every module parses (SANY) and TLC can read a JSON trace and print a verdict."""
import glob
import os
import sys

from . import common, tlc


def main():
    bad = 0
    for p in sorted(glob.glob(os.path.join(tlc.SPEC_DIR, "*.tla"))):
        mod = os.path.basename(p)[:-4]
        ok, out = tlc.sany(mod)
        if not ok:
            bad += 1
            print("SANY FAILED:", mod)
            print(out[-1500:])
    if bad:
        return 2
    print("all TLA+ modules parse")
    return 0


if __name__ == "__main__":
    sys.exit(main())
