"""Pass 2 for C14: build real legacy peewee databases in a private data directory, create the default
SQLite store beside them (which triggers the migration), and record both contents and whether the legacy
file's bytes changed.  Each case runs in a forked child with XDG_DATA_HOME pointing at a fresh directory."""
import copy
import hashlib
import json
import os
import random
import shutil

from . import common, own

common.use_repo()


def sha(path):
    h = hashlib.sha256()
    for suf in ("", "-wal", "-journal"):
        if os.path.exists(path + suf):
            with open(path + suf, "rb") as f:
                h.update(suf.encode() + f.read())
    return h.hexdigest()


def gen_case(rnd):
    """abstract legacy contents: buckets (incl. unicode ids), metadata with data dicts, events, deletions (id gaps), one large bulk"""
    nb = rnd.choice([0, 1, 1, 2, 3])
    buckets = []
    for i in range(nb):
        bid = rnd.choice(["aw-watcher-window_host", "bücket-ünï", "b with space", "x"]) + str(i)
        n = rnd.choice([0, 1, 2, 3, 6, 6, 130 if rnd.random() < 0.15 else 4])
        if rnd.random() < 0.04:
            n = rnd.choice([1001, 2500])
        buckets.append({"id": bid, "type": rnd.choice(["currentwindow", "afk"]), "client": "cl", "hostname": rnd.choice(["h1", "hö"]),
                        "name": rnd.choice([None, "nm"]), "data": rnd.choice([None, {"k": [1, {"z": "ü"}]}, {"a": "b"}]),
                        "n": n, "delete": sorted(rnd.sample(range(n), min(n, rnd.choice([0, 0, 1, 2])))), "dups": rnd.random() < 0.3})
    if len(buckets) >= 2 and rnd.random() < 0.3:
        buckets[1]["id"] = buckets[0]["id"].swapcase()        # two legacy ids that differ only in letter case (a renamed host)
    return {"profile": rnd.choice([True, False]), "has_legacy": rnd.random() < 0.9, "other_profile": rnd.random() < 0.3, "buckets": buckets,
            "surrogate": rnd.random() < 0.25}


def _child(case, seed, root):
    """runs inside a forked process; returns the record"""
    import iso8601
    rnd = random.Random(seed)
    os.environ["XDG_DATA_HOME"] = root
    from aw_core.dirs import get_data_dir
    from aw_core.models import Event
    from aw_datastore import Datastore
    from aw_datastore.storages import PeeweeStorage, SqliteStorage
    ddir = get_data_dir("aw-server")
    assert ddir.startswith(root), ddir
    def vname(e):
        # a name of the event's value that is the same in every process: the legacy stores are built in processes of their own
        return "h" + hashlib.sha1(repr(own.canon_event(e)).encode()).hexdigest()[:16]

    def mname(m):
        try:
            created = iso8601.parse_date(m["created"]).timestamp()
        except Exception:
            created = "?"
        return json.dumps([m["type"], m["client"], m["hostname"], m["name"], m["data"], created], sort_keys=True)

    def build(testing, buckets):
        ds = Datastore(PeeweeStorage, testing=testing)
        for b in buckets:
            kw = {}
            if b["name"]:
                kw["name"] = b["name"]
            if b["data"]:
                kw["data"] = copy.deepcopy(b["data"])
            bk = ds.create_bucket(b["id"], b["type"], b["client"], b["hostname"], **kw)
            evs = []
            if b["n"] > 1000:
                # back-to-back one-second events with a twin sharing every 500th timestamp
                from datetime import datetime, timedelta, timezone
                t0 = datetime(2021, 3, 4, 5, 6, 7, tzinfo=timezone.utc)
                for i in range(b["n"]):
                    evs.append(Event(timestamp=t0 + timedelta(seconds=i - (1 if i % 500 == 499 else 0)), duration=1, data={"i": i % 7}))
            for i in range(b["n"] if b["n"] <= 1000 else 0):
                ts, dur, data = own.rand_triple(rnd)
                evs.append(Event(timestamp=ts, duration=dur, data=data))
            if b["dups"] and evs:
                evs.append(copy.deepcopy(evs[0]))
            if case.get("surrogate") and evs:
                # a title cut in the middle of an emoji: an unpaired UTF-16 surrogate is legal in a Python str and in JSON text
                evs.append(Event(timestamp=evs[0].timestamp, duration=2, data={"title": "party \ud83c", "n": [1, "\udc00x"]}))
            if evs:
                bk.insert(evs)
            stored = bk.get(-1)
            for i in b["delete"]:
                if i < len(stored):
                    bk.delete(stored[i].id)
        dump = dump_ds(ds)
        path = ds.storage_strategy.db.database
        ds.storage_strategy.db.close()
        return dump, path

    def dump_ds(ds):
        out = []
        for bid, m in sorted(ds.buckets().items()):
            evs = ds[bid].get(-1)
            out.append({"id": "".join(c if ord(c) < 128 else "_%x" % ord(c) for c in bid), "meta": mname(m),
                        "evs": [{"id": e.id if isinstance(e.id, int) else -2, "v": vname(e)} for e in evs]})
        return out

    def build_forked(testing, buckets):
        """the legacy store is written by a process of its own (as the old server did), so that nothing it leaves in
        module-level state is shared with the process that migrates"""
        r, w = os.pipe()
        pid = os.fork()
        if pid == 0:
            try:
                os.close(r)
                try:
                    res = build(testing, buckets)
                except BaseException:
                    import traceback
                    res = {"error": traceback.format_exc()}
                os.write(w, json.dumps(res).encode())
            finally:
                os._exit(0)
        os.close(w)
        buf = b""
        while True:
            c = os.read(r, 1 << 20)
            if not c:
                break
            buf += c
        os.close(r)
        os.waitpid(pid, 0)
        res = json.loads(buf) if buf else {"error": "no output"}
        if isinstance(res, dict):
            raise RuntimeError("building the legacy store failed: %s" % res["error"])
        return res[0], res[1]

    other_buckets = [dict(case["buckets"][0], id="other-profile-bucket")] if case["buckets"] else \
        [{"id": "other-profile-bucket", "type": "t", "client": "c", "hostname": "h", "name": None, "data": None, "n": 2, "delete": [], "dups": False}]
    if case["buckets"] and case.get("both", True) and seed % 2 == 0:
        # the other profile's legacy store also has buckets with the SAME ids, created in another order (other row ids) and with
        # fewer events: nothing learnt about one store may be applied to the other
        other_buckets = other_buckets + [dict(b, n=min(b["n"], 3), delete=[], dups=False) for b in reversed(case["buckets"])]
    legacy = {}      # profile (testing flag) -> (dump, path)
    if case["has_legacy"]:
        legacy[case["profile"]] = build_forked(case["profile"], case["buckets"])
    if case["other_profile"]:
        legacy[not case["profile"]] = build_forked(not case["profile"], other_buckets)

    def first_open(testing):
        dump, lpath = legacy.get(testing, ([], None))
        before = sha(lpath) if lpath else "-"
        out, new = "ok", []
        try:
            ds2 = Datastore(SqliteStorage, testing=testing)
            new = dump_ds(ds2)
            ds2.storage_strategy.conn.close()
        except Exception as e:
            out = type(e).__name__
        after = sha(lpath) if lpath else "-"
        return {"profile": "testing" if testing else "normal", "has_legacy": lpath is not None, "out": out, "legacy": dump, "new": new, "bytes_same": before == after}

    recs = [first_open(case["profile"])]
    if case["other_profile"] and case.get("both", True):
        # the same process then creates the other profile's default store for the first time, beside its own legacy file
        recs.append(first_open(not case["profile"]))
    return recs


def run_case(args):
    case, seed = args
    root = common.scratch_dir("mig%d_%d" % (os.getpid(), seed))
    r, w = os.pipe()
    pid = os.fork()
    if pid == 0:
        try:
            os.close(r)
            try:
                res = _child(case, seed, root)
            except BaseException:
                import traceback
                res = {"error": traceback.format_exc()}
            os.write(w, json.dumps(res).encode())
        finally:
            os._exit(0)
    os.close(w)
    buf = b""
    while True:
        c = os.read(r, 1 << 20)
        if not c:
            break
        buf += c
    os.close(r)
    os.waitpid(pid, 0)
    shutil.rmtree(root, ignore_errors=True)
    res = json.loads(buf) if buf else {"error": "no output"}
    if isinstance(res, dict):
        raise RuntimeError("migration case failed in the harness: %s" % res.get("error"))
    return res
