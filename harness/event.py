"""Pass 2 for C13: construct Events from aware datetimes / ISO strings (offset or Z) and int / float /
timedelta durations, convert to JSON and back, and record everything as limbs for spec/AwEventTrace.tla."""
import json
import random
from datetime import date, datetime, timedelta, timezone, tzinfo

from . import common

common.use_repo()
E0D = date(1970, 1, 1)
_schema = None
_names = {}


def limbs_in(d, s, us, off):
    return {"d": d, "s": s, "us": us, "off": off}


def limbs_out(dt):
    off = dt.utcoffset()
    # "a UTC datetime": the offset is zero not only at this instant but wherever arithmetic may take the value (a zone that
    # merely happens to be at +00:00 now is not UTC)
    utc = off is not None and off == timedelta(0) and all((dt + timedelta(days=k)).utcoffset() == timedelta(0) for k in (-400, 400, 183))
    return {"d": (dt.date() - E0D).days, "s": dt.hour * 3600 + dt.minute * 60 + dt.second, "us": dt.microsecond, "utc": bool(utc)}


def dur_limbs(td):
    us_total = td // timedelta(microseconds=1)
    neg = us_total < 0
    a = abs(us_total)
    return {"neg": neg, "s": a // 1_000_000, "us": a % 1_000_000}


def dname(data):
    k = json.dumps(data, sort_keys=True)
    if k not in _names:
        _names[k] = "data%d" % (len(_names) + 1)
    return _names[k]


class FoldTz(tzinfo):
    """a zone in its repeated (fall-back) hour, PEP 495: the offset depends on the datetime's fold attribute"""
    def __init__(self, off0, off1):
        self.off = (off0, off1)

    def utcoffset(self, dt):
        return timedelta(minutes=self.off[1 if dt is not None and dt.fold else 0])

    def dst(self, dt):
        return timedelta(0)

    def tzname(self, dt):
        return "FOLD"


class ZeroThisYearTz(tzinfo):
    """a zone whose offset is +00:00 during one calendar year only (+01:00 otherwise): at the instant given it is
    indistinguishable from UTC by its offset alone"""
    def __init__(self, year):
        self.year = year

    def utcoffset(self, dt):
        return timedelta(0) if dt is None or dt.year == self.year else timedelta(hours=1)

    def dst(self, dt):
        return timedelta(0)

    def tzname(self, dt):
        return "ZERO-NOW"


_fold_tzs = {}


def fold_tz(o0, o1):
    """one tzinfo OBJECT per zone (as zoneinfo gives): the two readings of a repeated hour differ only in `fold`, and two
    datetimes with the same tzinfo object compare equal when their wall-clock fields do"""
    if (o0, o1) not in _fold_tzs:
        _fold_tzs[(o0, o1)] = FoldTz(o0, o1)
    return _fold_tzs[(o0, o1)]


def build_ts(rep, d, s, us, off):
    tz = timezone(timedelta(minutes=off))
    local = datetime(1970, 1, 1, tzinfo=tz) + timedelta(days=d, seconds=s, microseconds=us)
    if rep == "dt":
        return local
    if rep == "dtzero":       # only meaningful for offset 0: an aware datetime in a non-UTC zone that is at +00:00 at that instant
        return local.replace(tzinfo=ZeroThisYearTz(local.year))
    if rep == "dtfold1":      # second occurrence of the wall-clock time: the offset that applies is `off`
        return local.replace(tzinfo=fold_tz(min(off + 60, 1439), off), fold=1)
    if rep == "dtfold0":      # first occurrence
        return local.replace(tzinfo=fold_tz(off, max(off - 60, -1439)), fold=0)
    if rep == "iso":
        ts = local.isoformat()
        if us % 100000 == 0 and us:
            ts = ts.replace(".%06d" % us, ".%d" % (us // 100000))        # one fractional digit
        elif us % 1000 == 0 and us:
            ts = ts.replace(".%06d" % us, ".%03d" % (us // 1000))        # millisecond precision
        return ts
    if rep == "isoZ":
        # only meaningful for offset 0: write the trailing Z
        return local.replace(tzinfo=None).isoformat() + "Z"
    raise ValueError(rep)


def one(case):
    """case: (rep, d, s, us, off, dkind, dneg, ds, dus, data, id)"""
    global _schema
    from aw_core.models import Event
    from aw_core.schema import get_json_schema
    import jsonschema
    if _schema is None:
        _schema = get_json_schema("event")
    setcase = case[11] if len(case) > 11 else None
    rep, d, s, us, off, dkind, dneg, ds, dus, data, eid = case[:11]
    ts = build_ts(rep, d, s, us, off)
    if rep in ("dtfold1", "dtfold0") and (d + s) % 2 == 0:
        # the OTHER reading of the same wall-clock time in the same zone was seen by the library just before
        Event(timestamp=ts.replace(fold=1 - ts.fold), duration=0, data={})
    sign = -1 if dneg else 1
    if dkind == "int":
        dur = sign * ds
        dus = 0
    elif dkind == "float":
        dur = sign * (ds + dus / 1e6)
    else:
        dur = sign * timedelta(seconds=ds, microseconds=dus)
    e = Event(id=eid, timestamp=ts, duration=dur, data=data)
    rec = {"rep": rep, "inp": limbs_in(d, s, us, off), "out": limbs_out(e.timestamp),
           "din": {"neg": bool(dneg and (ds or dus)), "s": ds, "us": dus}, "dout": dur_limbs(e.duration),
           "id": eid if eid is not None else -1, "data": dname(data)}
    jd = e.to_json_dict()
    try:
        jsonschema.validate(jd, _schema, format_checker=jsonschema.FormatChecker())
        js = json.loads(e.to_json_str())
        rec["json_ok"] = isinstance(js["timestamp"], str) and isinstance(js["duration"], (int, float))
    except Exception:
        rec["json_ok"] = False
        js = jd
    e2 = Event(**js)
    rec.update(out2=limbs_out(e2.timestamp), dout2=dur_limbs(e2.duration), id2=e2.id if e2.id is not None else -1, data2=dname(e2.data))
    e3 = Event(**e)
    rec.update(out3=limbs_out(e3.timestamp), dout3=dur_limbs(e3.duration), id3=e3.id if e3.id is not None else -1, data3=dname(e3.data))
    # the JSON form follows the event: change the data dict in place (no setter is involved) and serialise again
    how = (d + s + us + ds) % 4
    if how == 0:
        e.data["added-later"] = [1, {"k": "v"}]                    # in place, no setter involved
    elif how == 1:
        e.data = {"replaced": [d % 7, {"k": None}]}                # a new dict through the data setter
    elif how == 2:
        e.id = (eid or 0) + 1000                                   # a new id through the id setter
    else:
        e.data = dict(e.data, more="x")
        e.id = None if eid is not None else 5
    rec["id_now"] = e.id if e.id is not None else -1
    rec["data_now"] = dname(e.data)
    rec["inp2"] = rec["inp"]
    if setcase is not None:      # a new instant (and duration) through the public setters, after the event has been serialised once
        rep2, d2, s2, us2, off2, newdur = setcase
        e.timestamp = build_ts(rep2, d2, s2, us2, off2)
        rec["inp2"] = limbs_in(d2, s2, us2, off2)
        if newdur is not None:
            e.duration = timedelta(seconds=newdur[0], microseconds=newdur[1])
    rec["out_set"] = limbs_out(e.timestamp)
    rec["dur_now"] = dur_limbs(e.duration)
    e4 = Event(**json.loads(e.to_json_str()))
    rec.update(out4=limbs_out(e4.timestamp), dout4=dur_limbs(e4.duration), id4=e4.id if e4.id is not None else -1, data4=dname(e4.data))
    return rec


def run_cases(cases):
    out = []
    for c in cases:
        try:
            out.append(one(c))
        except Exception as e:       # constructing, converting and rebuilding never raises on the unchanged code for these inputs
            out.append({"rep": c[0], "raised": type(e).__name__, "inp": limbs_in(c[1], c[2], c[3], c[4]), "din": {"neg": bool(c[6]), "s": c[7], "us": c[8]},
                        "out": {"d": 0, "s": 0, "us": 0, "utc": False}, "dout": {"neg": False, "s": 0, "us": 0}})
    return out


DATAS = [{}, {"a": 1}, {"url": None, "a": {"b": None, "c": [None]}}, {"title": "ü\"'\\ ☃", "l": [1, {"k": None}], "f": 0.5}, {"nested": {"x": [True, None, 1.25e-3]}}]
DAYS_POOL = [0, 1, 365, 10957, 11016, 13879, 17166, 19000, 24855, 24856, 40000, 47481]
OFFS_POOL = [-840, -720, -570, -330, -60, -1, 0, 1, 60, 345, 330, 570, 765, 840]


def rand_case(rnd, us=None, rep=None, nested=False):
    rep = rep or rnd.choice(["dt", "iso", "iso", "isoZ", "dt", "dtfold1", "dtfold0", "dtzero"])
    off = 0 if rep in ("isoZ", "dtzero") else rnd.choice(OFFS_POOL + [rnd.randrange(-840, 841)])
    d = rnd.choice(DAYS_POOL + [0, 0] + [rnd.randrange(0, 47482)] * 3)
    # day 0 with a positive offset is a 1970 timestamp whose instant lies before the epoch: inside the property's range
    s = rnd.choice([0, 1, 59, 3599, 43200, 86399, rnd.randrange(0, 86400)])
    if us is None:
        us = rnd.choice([0, 1, 999, 1000, 1001, 499999, 500000, 700000, 123000, 999000, 999999, rnd.randrange(0, 1000000)])
    dkind = rnd.choice(["int", "float", "timedelta"])
    dneg = rnd.random() < 0.1
    ds = rnd.choice([0, 1, 59, 86399, 86400, 2591999, rnd.randrange(0, 2592000)])
    dus = rnd.choice([0, 1, 999, 1000, 500000, 999999, rnd.randrange(0, 1000000)])
    eid = rnd.choice([None, 0, 7, 123456])
    case = (rep, d, s, us, off, dkind, dneg, ds, dus, rnd.choice(DATAS), eid)
    if nested:
        return case
    if rnd.random() < 0.4:
        c2 = rand_case(rnd, nested=True)
        case += ((c2[0], c2[1], c2[2], c2[3], c2[4], rnd.choice([None, (c2[7], c2[8])])),)
    return case
