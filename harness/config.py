"""Pass 2 for C20: render default / user documents as TOML, call the real load_config_toml in a private
XDG_CONFIG_HOME, project the returned container back to the tagged-tree vocabulary of spec/AwConfig.tla."""
import itertools
import json
import os
import random
import shutil

from . import common

common.use_repo()


def leaf(kind, value):
    return {"k": kind, "s": canon(kind, value)}


def canon(kind, v):
    if kind == "float":
        return repr(float(v))
    if kind == "bool":
        return "true" if v else "false"
    if kind == "array":
        return json.dumps(v, sort_keys=True)
    return str(v)


LEAVES = [("int", 3), ("int", -7), ("str", "3"), ("str", "1.5"), ("str", "True"), ("str", "hello"), ("str", "with \"quote\" # not a comment"),
          ("str", "sep\u2028[x]"), ("str", "nel\u0085[y] z"), ("str", "first\n# second line looks like a comment\n[third]"), ("float", 1.5), ("float", 0.25), ("bool", True), ("bool", False),
          ("array", [1, 2, 3]), ("array", ["a", "b"]), ("array", []),
          # arrays of tables: an array is a VALUE - the user's array replaces the default's as a whole
          ("array", [{"a": 1}, {"b": "x"}]), ("array", [{"a": 2, "c": True}]), ("array", [{"b": "y"}, {"a": 1}, {"d": 4}])]
KEYS = ["alpha", "beta", "gamma", "port"]


def table(entries):
    return {"k": "table", "v": [{"key": k, "val": v} for k, v in entries]}


def toml_value(lf, multiline=False, raw=False):
    k, s = lf["k"], lf["s"]
    if k == "str":
        if multiline and "\n" in s and '"""' not in s and "\\" not in s:
            return '"""\n' + s.replace('"', '\\"') + '"""'       # a multi-line basic string (user files only)
        return json.dumps(s, ensure_ascii=not raw)            # one line; raw: non-ASCII characters written as themselves
    if k == "array":
        return toml_array(json.loads(s))
    return s


def toml_array(v):
    def el(x):
        if isinstance(x, dict):
            return "{ " + ", ".join("%s = %s" % (kk, el(vv)) for kk, vv in x.items()) + " }"
        if isinstance(x, bool):
            return "true" if x else "false"
        if isinstance(x, str):
            return json.dumps(x)
        if isinstance(x, list):
            return "[" + ", ".join(el(y) for y in x) + "]"
        return str(x)
    return "[" + ", ".join(el(x) for x in v) + "]"


def inline(doc):
    return "{ " + ", ".join("%s = %s" % (e["key"], inline(e["val"]) if e["val"]["k"] == "table" else toml_value(e["val"])) for e in doc["v"]) + " }"


def to_toml(doc, rnd=None, comments=False, prefix=(), styles=False, multiline=False, raw=False):
    """tagged tree -> TOML text (scalars first, then sub-tables with [a.b] headers); every value on one line.
    styles: some tables are written inline ({ a = 1 }) and sub-tables of different parents are interleaved"""
    lines = []
    scal = [e for e in doc["v"] if e["val"]["k"] != "table"]
    tabs = [e for e in doc["v"] if e["val"]["k"] == "table"]
    if styles and rnd:
        for e in list(tabs):
            if e["val"]["v"] and rnd.random() < 0.35:
                tabs.remove(e)
                lines.append("%s = %s" % (e["key"], inline(e["val"])))
    for e in scal:
        if comments and rnd and rnd.random() < 0.3:
            lines.append("# a comment about %s = 1" % e["key"])
        lines.append("%s = %s%s" % (e["key"], toml_value(e["val"], multiline, raw), "  # trailing" if comments and rnd and rnd.random() < 0.2 else ""))
    for e in tabs:
        path = prefix + (e["key"],)
        lines.append("")
        lines.append("[%s]" % ".".join(path))
        sub = to_toml(e["val"], rnd, comments, path, styles, multiline, raw)
        if sub:
            lines.append(sub)
    return "\n".join(lines)


def project(x):
    """tomlkit container / python value -> tagged tree"""
    if isinstance(x, dict):
        return table([(str(k), project(v)) for k, v in x.items()])
    if isinstance(x, bool):
        return leaf("bool", bool(x))
    if isinstance(x, int):
        return leaf("int", int(x))
    if isinstance(x, float):
        return leaf("float", float(x))
    if isinstance(x, str):
        return leaf("str", str(x))
    if isinstance(x, list):
        return leaf("array", json.loads(json.dumps([unwrap(y) for y in x])))
    return {"k": "other", "s": type(x).__name__}


def unwrap(y):
    if isinstance(y, bool):
        return bool(y)
    if isinstance(y, int):
        return int(y)
    if isinstance(y, float):
        return float(y)
    if isinstance(y, str):
        return str(y)
    if isinstance(y, list):
        return [unwrap(z) for z in y]
    if isinstance(y, dict):
        return {str(k): unwrap(z) for k, z in y.items()}
    return str(y)


def rand_doc(rnd, depth, keys=KEYS):
    entries = []
    for k in rnd.sample(keys, rnd.randint(0, min(3, len(keys)))):
        if depth > 0 and rnd.random() < 0.45:
            entries.append((k, rand_doc(rnd, depth - 1)))
        else:
            kind, v = rnd.choice(LEAVES)
            entries.append((k, leaf(kind, v)))
    return table(entries)


def small_docs():
    lv = [leaf("int", 3), leaf("str", "hello"), leaf("str", "3")]
    docs = [table([])]
    for k in ("alpha", "beta"):
        for x in lv:
            docs.append(table([(k, x)]))
        docs.append(table([(k, table([]))]))
        for x in lv:
            docs.append(table([(k, table([("alpha", x)]))]))
    for x, y in itertools.product(lv, repeat=2):
        docs.append(table([("alpha", x), ("beta", y)]))
        docs.append(table([("alpha", x), ("beta", table([("beta", y)]))]))
    return docs


def run_cases(args):
    seed, cases = args
    import aw_core.config as C
    rnd = random.Random(seed)
    root = common.scratch_dir("cfg%d_%d" % (os.getpid(), seed))
    os.environ["XDG_CONFIG_HOME"] = root
    out = []
    try:
        for n, case in enumerate(cases):
            d, u, has_file, comments = case[:4]
            given = case[4] if len(case) > 4 else None
            styles = comments
            app = "app%d" % n
            from aw_core import dirs
            cdir = dirs.get_config_dir(app)
            assert cdir.startswith(root), cdir
            path = os.path.join(cdir, app + ".toml")
            dtxt = to_toml(d, rnd, False, (), styles and rnd.random() < 0.5, False, rnd.random() < 0.6)      # defaults: every value on one line
            if given:
                dtxt = given["default"]
            rec = {"d": d, "has_file": has_file, "u": u if has_file else table([]), "out": "ok", "file_written": False, "later": table([]),
                   "_texts": {"default": dtxt, "user": ""}}
            before = None
            if has_file:
                utxt = to_toml(u, rnd, comments, (), styles, rnd.random() < 0.7, rnd.random() < 0.6) + "\n"
                if not u["v"]:
                    utxt = ["", "\n", "# only a comment\n", "  \n\n"][(n + seed) % 4]      # a user file that sets nothing: zero bytes, blank, comment-only
                if given:
                    utxt = given["user"]
                rec["_texts"]["user"] = utxt
                with open(path, "w") as f:
                    f.write(utxt)
                before = open(path, "rb").read()
            try:
                res = C.load_config_toml(app, dtxt)
                rec["result"] = project(res)
                if has_file:
                    rec["file_same"] = open(path, "rb").read() == before
                else:
                    rec["file_written"] = os.path.isfile(path)
                    first = open(path, "rb").read() if rec["file_written"] else b""
                    later = C.load_config_toml(app, dtxt)
                    rec["later"] = project(later)
                    rec["file_same"] = (open(path, "rb").read() if os.path.isfile(path) else b"") == first
            except Exception as e:
                rec["out"] = type(e).__name__
                rec["_texts"]["error"] = repr(e)[:300]
                rec.setdefault("result", table([]))
                rec.setdefault("file_same", True)
            out.append(rec)
    finally:
        shutil.rmtree(root, ignore_errors=True)
    return out
