"""Pass 2 for C16: call the real grouping / chunking / sorting / filtering transforms on small event
lists with missing keys, list values, equal values under different keys and duplicates; record I/O."""
import copy
import itertools
import json
import random
from datetime import timedelta

from . import common, store

common.use_repo()
RX = {"alpha": ["alpha", "al+pha", "^alpha", "alph"], "beta": ["beta", "b.ta", "beta$", "eta"], "any": [""], "dot": ["."], "never": ["gamma", "^lpha", "ALPHA"]}
VALS = {"v1": "alpha", "v2": "beta", "v12": "alpha beta", "e": "", "L1": ["a", "b"], "L0": [], "L2": ["alpha"], "null": None, "i3": 3, "im1": -1, "im2": -2, "L3": [0, -1], "L4": [0, -2]}
KEYS = ["k1", "k2", "k3"]


def aval(v):
    for k, c in VALS.items():
        if c == v and type(c) is type(v):
            return k
    return "UNKNOWN"


class Cg:
    def __init__(self, rnd):
        self.c = store.Concretiser(rnd, scales=(1, 1000, 43200000))      # the last: 12 h per tick, durations of several days

    def mk(self, lst, Event):
        return [Event(id=(None if e.get("id", -1) == -1 else e["id"]), timestamp=self.c.dt(e["ts"]), duration=self.c.td(e["dur"]), data={k: copy.deepcopy(VALS[v]) for k, v in self.shuffled(e["data"])}) for e in lst]

    def shuffled(self, d):
        """the same keys and values, inserted into the event's dict in a random order"""
        items = list(d.items())
        self.c.rnd.shuffle(items)
        return items

    def pdata(self, d, skip=()):
        out = {"_": "_"}
        for k, v in d.items():
            if k not in skip:
                out[str(k)] = aval(v)
        return out

    def pev(self, e):
        return {"id": e.id if isinstance(e.id, int) else -1, "ts": self.c.tick(e.timestamp), "dur": self.c.dur(e.duration), "data": self.pdata(e.data)}

    def proj(self, evs):
        return [self.pev(e) for e in evs]


def rand_events(rnd, n, keys=KEYS, vals=("v1", "v2", "L1", "null", "L0", "L2", "v1", "im1", "im2", "i3", "L3", "L4")):
    out = []
    for _ in range(n):
        d = {}
        for k in keys:
            if rnd.random() < 0.6:
                d[k] = rnd.choice(vals)
        # ids: events read from a bucket carry one, freshly built events do not; a list may mix both
        out.append({"id": rnd.choice([-1, -1, 1, 2, 7]), "ts": rnd.randrange(0, 6), "dur": rnd.choice([0, 1, 1, 2, 5]), "data": d})
    if out and rnd.random() < 0.3:
        out.append(copy.deepcopy(rnd.choice(out)))      # duplicates
    return out


def small_events():
    """every event over keys k1,k2 with values v1/v2/absent, two durations"""
    evs = []
    for a, b in itertools.product([None, "v1", "v2"], repeat=2):
        d = {}
        if a:
            d["k1"] = a
        if b:
            d["k2"] = b
        evs.append({"ts": 0, "dur": 1, "data": d})
    return evs


def run_cases(args):
    seed, cases = args
    from aw_core.models import Event
    from aw_transform import (chunk_events_by_key, concat, filter_keyvals, filter_keyvals_regex, limit_events, merge_events_by_keys,
                              sort_by_duration, sort_by_timestamp, sum_durations)
    rnd = random.Random(seed)
    cg = Cg(rnd)
    tr = []
    def warm(fn, evs):
        """the same Event objects went through an earlier call while they held OTHER instants, durations and data, and
        were then given their present values through the public setters"""
        if rnd.random() >= 0.25 or not evs:
            return
        saved = [(e, e.timestamp, e.duration, copy.deepcopy(e.data)) for e in evs]
        for k, e in enumerate(evs):
            e.timestamp = e.timestamp + timedelta(milliseconds=cg.c.scale * rnd.choice([1, 3, -2]))
            e.duration = e.duration + timedelta(milliseconds=cg.c.scale * (k % 3))
            e.data = {kk: copy.deepcopy(VALS[rnd.choice(["v1", "v2", "im1"])]) for kk in e.data}
        try:
            fn(evs)
        except Exception:
            pass
        for e, t, d, dt in saved:
            e.timestamp, e.duration, e.data = t, d, dt

    def one_case(c):
        op = c[0]
        inp = cg.mk(c[1], Event)
        if op == "merge":
            warm(lambda x: merge_events_by_keys(x, list(c[2])), inp)
        elif op == "chunk":
            warm(lambda x: chunk_events_by_key(x, c[2]), inp)
        elif op == "sort":
            warm(lambda x: (sort_by_timestamp(x), sort_by_duration(x)), inp)
        elif op == "sum":
            warm(lambda x: sum_durations(x), inp)
        pin = cg.proj(inp)
        if op == "merge":
            out = merge_events_by_keys(inp, list(c[2]))
            tr.append({"op": op, "inp": pin, "keys": list(c[2]), "out": cg.proj(out), "inp2": cg.proj(inp)})
        elif op == "chunk":
            out = chunk_events_by_key(inp, c[2])
            po = []
            for ch in out:
                subs = ch.data.get("subevents", [])
                po.append({"ts": cg.c.tick(ch.timestamp), "dur": cg.c.dur(ch.duration), "val": aval(ch.data.get(c[2], "?")), "subs": cg.proj(subs)})
            tr.append({"op": op, "inp": pin, "key": c[2], "out": po, "inp2": cg.proj(inp)})
        elif op == "sort":
            out = sort_by_timestamp(inp) if c[2] == "timestamp" else sort_by_duration(inp)
            tr.append({"op": op, "inp": pin, "by": c[2], "out": cg.proj(out), "inp2": cg.proj(inp)})
        elif op == "limit":
            out = limit_events(inp, c[2])
            tr.append({"op": op, "inp": pin, "n": c[2], "out": cg.proj(out), "inp2": cg.proj(inp)})
        elif op == "sum":
            tot = sum_durations(inp)
            tr.append({"op": op, "inp": pin, "total": cg.c.dur(tot), "inp2": cg.proj(inp)})
        elif op == "filter":
            vals = [copy.deepcopy(VALS[v]) for v in c[3]]
            outf = filter_keyvals(inp, c[2], vals, False)
            outx = filter_keyvals(inp, c[2], vals, True)
            tr.append({"op": op, "inp": pin, "key": c[2], "vals": list(c[3]), "outf": cg.proj(outf), "outx": cg.proj(outx), "inp2": cg.proj(inp)})
        elif op == "concat":
            inb = cg.mk(c[2], Event)
            pinb = cg.proj(inb)
            out = concat(inp, inb)
            tr.append({"op": op, "inp": pin, "inpb": pinb, "out": cg.proj(out), "inp2": cg.proj(inp), "inpb2": cg.proj(inb)})
        elif op == "regex":
            out = filter_keyvals_regex(inp, c[2], c[4])
            tr.append({"op": op, "inp": pin, "key": c[2], "rx": c[3], "out": cg.proj(out), "inp2": cg.proj(inp)})

    for c in cases:
        try:
            one_case(c)
        except Exception as e:      # no input of these grids makes the unchanged transforms raise
            tr.append({"op": "raised", "fn": c[0], "exc": type(e).__name__, "inp": cg.proj(cg.mk(c[1], Event))})
    return tr
