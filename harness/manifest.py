"""Generates MANIFEST.json from one table (python -m harness.manifest)."""
import json
import os

from . import common

CHECKS = {}   # id -> dict(level, text, note, technique, design_ref)
NOT_YET = {}


def check(pid, text, note, technique, design_ref, level="model_checking"):
    CHECKS[pid] = dict(level=level, text=text, note=note, technique=technique, design_ref=design_ref)


check("C01",
      "spec/AwOwnership.tla models the bucket together with the caller's heap (objects passed in, returned, handed out, metadata dicts): insertion stores a copy, reads create new objects, CallerMutate "
      "changes the heap only; TLC checks IdsUnique, StoredAsInserted, ReadsReflectStore and the Ownership action property, simulates behaviours from it, and judges their replay on memory/sqlite/peewee "
      "(same Python objects reused per heap reference, in-place mutation at field and nested depth) with the full listing / lookup / count / metadata after every step.",
      "Trusted: TLC; value identity is the harness' interning of (instant to ms, duration to us, JSON data), i.e. the property's own equalities; the numeric space (10^15 instants, 30-day durations at us) is sampled "
      "with boundary instants, not exhausted: TLA+ has no floats, the model decides ownership structure only.",
      "TLA+ spec + TLC model checking + TLC trace validation of replayed spec behaviours (numeric half sampled)", "DESIGN.md §6 C01")
check("C02",
      "TLC model-checks the reference list model (spec/AwStore.tla) exhaustively on small constants and checks that the design layers of the three backends "
      "(AwSqliteDesign, AwPeeweeDesign, AwMemoryDesign: tables / lists, id allocation, row selections, caches) refine its step relation, with the pinned tree's statements refuted as negative controls; "
      "behaviours simulated by TLC from the same specification, random abstract histories, every transition of a bounded instance printed by TLC (AwStoreEdges) and the repository's own datastore tests as recorded "
      "are replayed on memory/sqlite/peewee and every recorded call with the full observed state of all buckets is validated by TLC against the specification's step relation (trace validation, canary traces must be rejected).",
      "Trusted: TLC, the JSON projection of the harness (ticks/data names), small-scope hypothesis for the bounded model; histories are sampled, not exhaustive.",
      "TLA+ spec + TLC model checking + TLC trace validation of replayed spec behaviours", "DESIGN.md §6 C02")
check("C03",
      "TLC checks that the design layer (window rounding of Datastore.get + backend selection, order, limit, clipping, count) satisfies the declarative "
      "read predicates of spec/AwReads.tla for every content x window x limit on a half-millisecond grid; the same predicates then judge every recorded "
      "get/get_eventcount of the real backends (systematic grid + random contents/windows with sub-ms jitter and UTC offsets).",
      "Trusted: TLC, projection to ms ticks. Tolerance Tol = 2 ms is part of the property; date/offset space is sampled.",
      "TLA+ relational spec + TLC model checking of the design layer + TLC trace validation of recorded reads", "DESIGN.md §6 C03")
check("C04",
      "Same specification and judge as C02 with the frame clause (all other buckets read back identical, events and metadata) evaluated on every recorded call, "
      "including calls with ids that are live in another bucket or dead and events whose instants coincide across buckets; FrameOK is checked on the sqlite and peewee design layers; "
      "frame probes (a run of writes without reads, one call addressed to another bucket, one observation) come with a control execution of the same history without that call, so that TLC attributes a lost or changed write to that call.",
      "Trusted: as C02. Out-of-contract calls may be rejected or change the addressed bucket arbitrarily; only other buckets are constrained.",
      "TLA+ spec + TLC model checking (Frame action property) + TLC trace validation", "DESIGN.md §6 C04")
check("C05",
      "Bucket lifecycle actions of spec/AwStore.tla (create/update/delete/absent-bucket outcomes) model-checked by TLC (CreatedEmpty, CreatedStable, Frame) and "
      "validated against recorded lifecycle-heavy histories on the three backends: listing, lookup, metadata, events and exception classes after every call; the Datastore wrapper's handle cache is a design layer of its own "
      "(AwDatastoreDesign: the cache never names a missing bucket, lookup raises KeyError exactly for missing buckets) whose complete state graph is replayed edge by edge on the real wrapper and judged on caller-visible outcomes.",
      "Trusted: as C02. Name of a bucket created without one is free; duplicate creation and event calls through stale handles are not generated.",
      "TLA+ spec + TLC model checking + TLC trace validation", "DESIGN.md §6 C05")
check("C06",
      "The commit policy's design layer (spec/AwDurable.tla: counter/age automaton, one action per operation, crash action) is model-checked by TLC against the "
      "property layer (BufferedBounded, BucketOpsDurable, DurableMonotone, CounterExact) with negative controls (the pinned tree's knobs are refuted); histories "
      "simulated by TLC from that model plus random ones run on sqlite and peewee with a crash at every SQL statement (database files as on disk at that instant, "
      "SIGKILL re-runs at sampled statements, one exit without shutdown); TLC (spec/AwDurableTrace.tla) decides whether every surviving file is the effect of an allowed prefix.",
      "Trusted: TLC; crash = process death (no power loss); file copy at a statement boundary == what a reopen after death at that boundary finds (cross-checked by real SIGKILLs); MaxBuffered = 64.",
      "TLA+ spec + TLC model checking + crash-point enumeration judged by TLC trace validation", "DESIGN.md §6 C06", level="model_checking")
check("C18",
      "Same model, generator and judge as C06 with a virtual clock: the design layer's AgeBound is model-checked (and refuted for the reversed age test); histories with clock ticks "
      "{1,9,11,15,16,30,3600 s} between writes are run on sqlite, and at every crash point the judge demands that an event write issued >= 15 s after the last flush observed BEFORE the call was issued is durable as a whole once it has returned (a commit the call performs part-way does not excuse the rest of the call).",
      "Trusted: as C06; the virtual clock shifts datetime.now/time.time/time.monotonic; AgeMust = 15 s is the property layer's reading of 'more than about ten seconds' (10..15 s is left free).",
      "TLA+ spec + TLC model checking + virtual-clock crash-point traces judged by TLC", "DESIGN.md §6 C18", level="model_checking")
check("C07",
      "TLC checks on the specification that the ingestion loop, built from AwStore's step relation (limit-1 read, Mergeable/Merged, replace-last or insert), leaves exactly Reduce(stream), "
      "never alters an earlier event and never touches a spectator bucket, for every small stream; the real loop (real get(1), heartbeat_merge, replace_last/insert) is then recorded step by step on "
      "memory/sqlite/peewee next to a populated spectator bucket and judged by TLC against the same definitions, together with the real heartbeat_reduce output.",
      "Trusted: TLC, projection to half-tick integers; streams are all small ones plus random longer ones (sampled).",
      "TLA+ spec + TLC model checking + TLC trace validation of the recorded loop", "DESIGN.md §6 C07")
check("C08",
      "spec/AwHeartbeat.tla states the pulsetime hull rule and the left fold; TLC checks normal form, idempotence, coverage and never-shortens on every small list, and judges every recorded "
      "heartbeat_merge (iff + value) and heartbeat_reduce call (fold equality, normal form, idempotence on the recorded second application, coverage) over an exhaustive small grid plus random lists.",
      "Trusted: TLC, projection to half-tick integers (fractional pulsetimes are multiples of half a tick).",
      "TLA+ relational spec + TLC model checking of its theorems + TLC validation of recorded I/O", "DESIGN.md §6 C08")
check("C09",
      "spec/AwIntervals.tla states intersection and union as relations on unit cells / closed point sets; TLC checks that transcriptions of the two-pointer sweep (with the third-party "
      "Timeslot.intersection) and of period_union's merge satisfy them for every pair of small lists, and judges every recorded call of the real functions (inputs, output, inputs after the call) "
      "over all pairs of small layouts plus random larger ones, shuffled.",
      "Trusted: TLC; projection to ticks (1/10/1000 ms per tick); small-scope: exhaustive for <= 2 events per list on the grid, sampled beyond.",
      "TLA+ relational spec + TLC model checking of algorithm transcriptions + TLC validation of recorded I/O", "DESIGN.md §6 C09")
check("C10",
      "FloodClause (non-overlap, positive length, coverage, per-label coverage, short gaps closed, long gaps intact, nothing new outside short gaps, input unchanged) is checked by TLC on a transcription "
      "of the pairwise walk with neighbour mutation and on every recorded call of the real flood over chains of up to 4 events, shuffled, pulsetimes 0..3 ticks.",
      "Trusted: as C09.", "TLA+ relational spec + TLC model checking of the algorithm transcription + TLC validation of recorded I/O", "DESIGN.md §6 C10")
check("C13",
      "spec/AwEvent.tla states Normalize on limbs (UTC, millisecond floor) and the construct -> JSON -> rebuild behaviour; TLC checks idempotence, zone independence and the floor bound on a grid, and judges every recorded "
      "construction (aware datetime / ISO with offset / ISO Z; int / float / timedelta durations), schema validation flag and both rebuilds. Quick: 5 microsecond values around every millisecond boundary; thorough: all 10^6 microsecond values.",
      "Trusted: TLC; limb projection; jsonschema with the repository's schema. The date x offset space is sampled (TLA+ has no floats; the model decides the limb arithmetic only).",
      "TLA+ spec on limbs + TLC model checking + TLC validation of recorded constructions (exhaustive in the microsecond dimension in the thorough tier)", "DESIGN.md §6 C13")
check("C14",
      "spec/AwMigration.tla states FirstOpen(profile): the new store has the legacy store's buckets with equal metadata and the same events as a bag of values, nothing for a profile without a legacy file, and the "
      "legacy file is untouched; TLC checks it on small stores. Real legacy peewee databases (unicode ids, data dicts, id gaps, duplicates, > 100 events, both profiles, other profile's file present) are built in a private "
      "XDG_DATA_HOME in forked children, the default SQLite store is created beside them, and TLC judges the two dumps and the byte-equality flag.",
      "Trusted: TLC; value interning as in C01; SHA-256 of the legacy database (+journal/WAL) before/after.",
      "TLA+ spec + TLC model checking + TLC validation of recorded migrations", "DESIGN.md §6 C14")
check("C15",
      "UnionNoOverlapClause (first list intact, pieces of each second-list event cover exactly its part not covered by the first list, no overlap, coverage = union, inputs unchanged) is checked by TLC on a "
      "transcription of the two-index merge and on every recorded call of the real union_no_overlap over all pairs of small sorted lists plus random 3-event lists.",
      "Trusted: as C09.", "TLA+ relational spec + TLC model checking of the algorithm transcription + TLC validation of recorded I/O", "DESIGN.md §6 C15")
check("C16",
      "spec/AwGrouping.tla states merge-by-keys (one event per presence-and-value signature, exact sums, total conserved), chunking (sub-events concatenate back, runs share the value, durations add up), "
      "sorting, limiting and filter/exclude complementarity as relations; TLC checks a transcription of the dictionary accumulation against MergeClause (and refutes the values-only composite key), "
      "and judges every recorded call of the real functions with inputs re-read after the call.",
      "Trusted: TLC; abstract values {v1,v2,list,null} concretised to str/list/None; small-scope hypothesis.",
      "TLA+ relational spec + TLC model checking of the algorithm transcription + TLC validation of recorded I/O", "DESIGN.md §6 C16")
check("C19",
      "spec/AwClassify.tla states rule matching (non-empty literal regex found in a selected string value, case-insensitively if asked), categorize (deepest match, later rule wins ties, Uncategorized), "
      "tag (matching tags in rule order) and the frame relation (count, order, timestamps, durations, unrelated keys unchanged); TLC checks transcriptions of Rule.match and the reduce fold against them "
      "(and refutes the '>' tie-break), and judges every recorded call of categorize, tag, split_url_events and simplify_string.",
      "Trusted: TLC; the regex engine, urlparse and the title regexes are not modelled (regex = one literal word; only the frame relation is decided for split_url_events / simplify_string).",
      "TLA+ relational spec + TLC model checking of the algorithm transcription + TLC validation of recorded I/O", "DESIGN.md §6 C19")
check("C11",
      "spec/AwQuery.tla defines the abstract syntax, its text in four spacing styles (Show) and its meaning (Run: value flow through literals, variables, lists, dicts and arguments, and the log of "
      "built-in applications in evaluation order with their argument values; nop/concat/limit_events on call-free values are computed). TLC enumerates well-formed programs from the grammar "
      "(AwQueryGen), the harness runs each text through aw_query.query with every registered built-in wrapped by a recorder, and TLC judges result and application log of every execution against Run "
      "(ExecClause) and across spacing styles.",
      "Trusted: TLC, the rendering of named characters, the recorder's projection of values (identity of opaque results). What each built-in computes is decided by C03..C19, not here.",
      "TLA+ spec of syntax+semantics, TLC program generation, TLC trace validation of recorded interpreter executions", "DESIGN.md §6 C11")
check("C12",
      "Query is specified as an action with UNCHANGED buckets; every generated program that reads buckets (all built-ins incl. in-place annotating ones, nested, multi-statement, and single-fault programs that raise "
      "midway) is run on memory/sqlite/peewee between two full dumps which TLC compares; query_bucket / query_bucket_eventcount are judged by the read predicates of AwReads for the query window and against direct "
      "windowed reads for random contents and windows.",
      "Trusted: TLC, the textual dump (listing, metadata, get(-1)); Tol = 2 ms as in C03.",
      "TLA+ spec + TLC program generation + TLC validation of recorded dumps and reads", "DESIGN.md §6 C12")
check("C17",
      "The interpreter's outcome classes are specified in AwQueryTrace (value, parse / interpret / function error, anything else escaping from parsing or name/arity/type resolution is inadmissible, so is non-termination). "
      "TLC generates single-fault programs with the family the property names for each fault and malformed texts; the harness adds every single-character corruption of sampled valid programs and every string of "
      "length <= 3 (thorough 4) over a 16-symbol alphabet in 7 contexts; every recorded outcome is judged by TLC.",
      "Trusted: TLC; stage attribution by the innermost traceback frame; 5 s of CPU time as the termination bound (wall-clock alarms proved load-sensitive). Exceptions raised inside a built-in's own computation are not judged; a lenient parser may accept malformed text.",
      "TLA+ outcome spec + TLC fault generation + exhaustive short-string enumeration judged by TLC", "DESIGN.md §6 C17")
check("C20",
      "spec/AwConfig.tla states Overlay on tagged document trees and the two load behaviours (existing file: Overlay + file untouched; no file: defaults, a file is written, later loads equal the defaults and leave it alone); "
      "TLC checks Overlay's theorems and that a transcription of _merge equals Overlay on all small document pairs, and judges every recorded load_config_toml call (all pairs of small documents, random deeper ones, comments, type changes).",
      "Trusted: TLC; tomlkit's parser; the harness' TOML rendering (one value per line).",
      "TLA+ relational spec + TLC model checking of the algorithm transcription + TLC validation of recorded loads", "DESIGN.md §6 C20")


def build():
    props = [json.loads(l)["id"] for l in open(os.path.join(common.VERIF, "properties.jsonl"))]
    checks = []
    for pid in props:
        if pid not in CHECKS:
            continue
        c = CHECKS[pid]
        checks.append(dict(property_id=pid, quick_cmd="./check %s --tier quick" % pid, thorough_cmd="./check %s --tier thorough" % pid,
                           evidence_file="evidence/%s.json" % pid, replay_cmd_template="./check %s --replay {path}" % pid,
                           engine="tlc", level_claimed=dict(category=c["level"], text=c["text"], design_ref=c["design_ref"]),
                           level_note=c["note"], technique=c["technique"]))
    na = [dict(property_id=p, reason=NOT_YET.get(p, "check not built yet in this round (planned, see DESIGN.md §11); no claim is made")) for p in props if p not in CHECKS]
    m = dict(version=1,
             setup_cmd="./setup.sh",
             hooks=dict(guard="AW_CORE_VERIF", enable="no source hooks are needed: checks import /repo's working tree directly (AW_REPO overrides the path)",
                        baseline_off_cmd="cd /repo && /venv/bin/python -m pytest -ra -q -p no:cacheprovider --timeout=900 --continue-on-collection-errors",
                        source_commits=[], add_only=True),
             engines=[dict(name="tlc", path="spec/", serves_properties=sorted(CHECKS), kind_free_text="TLA+ specifications checked with TLC 1.8 (model checking, simulation-based behaviour generation, batch trace validation); harness/ is the Python binding that replays behaviours into aw-core and records traces"),
                      dict(name="apalache", path="spec/MC_AwDurableInd.tla", serves_properties=["C06"], kind_free_text="Apalache 0.58: inductive invariant of the lazy-commit counter for unbounded histories (thorough tier of C06 only)")],
             checks=checks, not_applicable=na,
             notes="All verdicts on implementation traces are produced by TLC evaluating the TLA+ property layer; see DESIGN.md (section 0: as built; 8: findings F1-F17, all repaired by fix: commits and listed in "
                   "known_findings.json as fixed; 12: corrections to the machinery; 13: seeded breaking changes and property-preserving changes under seeded/). Exit codes: 0 held, 1 violation (VIOLATION line with a replay file), "
                   "2 machinery failure (model fails its own properties, negative control not refuted, canary accepted, TLC / harness error). Environment: VERIF_SEED, VERIF_TIER; AW_REPO=<tree> points a check at another working tree, "
                   "VERIF_EVIDENCE_DIR / VERIF_OUT_DIR redirect evidence and replay files (used by tools/seed_eval.py and tools/benign_eval.py). Scratch data lives under /dev/shm/awverif.<pid> and is removed on exit.")
    with open(os.path.join(common.VERIF, "MANIFEST.json"), "w") as f:
        json.dump(m, f, indent=1)
        f.write("\n")
    return m


if __name__ == "__main__":
    build()
    print("MANIFEST.json written with %d checks" % len(CHECKS))
