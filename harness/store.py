"""Pass 2 for the datastore families: concretise abstract operation lists, run them on the real
Datastore (memory / sqlite / peewee) and record, after every call, the outcome and the full projected
state.  No verdicts are taken here: the recorded traces are judged by spec/AwStoreTrace.tla."""
import copy
import json
import os
import random
import shutil
from datetime import datetime, timedelta, timezone

from . import common

common.use_repo()

E0 = datetime(1970, 1, 1, tzinfo=timezone.utc)
MS = timedelta(milliseconds=1)
BACKENDS = ["memory", "sqlite", "peewee"]

# abstract data names -> concrete JSON (unicode, quotes, floats, null, nesting)
DATA = {
    "d1": {"app": "x", "n": 1},
    "d2": {"title": "ü\"'\\ ☃", "l": [1, {"k": None}], "f": 0.5},
    "d3": {"nested": {"a": {"b": [True, False, None]}}, "e": ""},
}
META = {"m1": {"k": [1, 2]}, "m2": {"z": {"q": "å"}, "f": 1.25}}
STRS = {"s1": "alpha", "s2": "Beta-é", "s3": "gamma 3"}
BOUNDARY_BASES = [
    datetime(1970, 1, 1, tzinfo=timezone.utc),
    datetime(2038, 1, 19, 3, 14, 7, tzinfo=timezone.utc),
    datetime(2099, 12, 31, 23, 59, 59, tzinfo=timezone.utc),
    datetime(2000, 2, 29, 23, 59, 59, 999000, tzinfo=timezone.utc),
    datetime(2021, 12, 31, 23, 59, 59, 999000, tzinfo=timezone.utc),
]


def dname(d):
    for k, v in DATA.items():
        if v == d:
            return k
    return "UNKNOWN"


def mname(d):
    if d == {}:
        return "m0"
    for k, v in META.items():
        if v == d:
            return k
    return "UNKNOWN"


def sname(s):
    if s is None:
        return "None"
    for k, v in STRS.items():
        if v == s:
            return k
    return "other:" + "".join(c if c.isalnum() and ord(c) < 128 else "_" for c in str(s))[:24]


def mk_datastore(kind, d, tag="db"):
    from aw_datastore import Datastore
    from aw_datastore.storages import MemoryStorage, PeeweeStorage, SqliteStorage
    if kind == "memory":
        return Datastore(MemoryStorage, testing=True)
    if kind == "sqlite":
        return Datastore(SqliteStorage, testing=True, filepath=os.path.join(d, tag + ".sqlite"))
    if kind == "peewee":
        return Datastore(PeeweeStorage, testing=True, filepath=os.path.join(d, tag + ".peewee"))
    raise ValueError(kind)


def close_datastore(kind, ds):
    try:
        if kind == "peewee":
            ds.storage_strategy.db.close()
        elif kind == "sqlite":
            ds.storage_strategy.conn.close()
    except Exception:
        pass


class Concretiser:
    """ticks <-> instants: base instant (ms aligned), scale (ms per tick), random UTC offset per datetime."""

    def __init__(self, rnd, scales=(1, 10, 1000, 3600000)):
        self.rnd = rnd
        if rnd.random() < 0.2:
            self.base = rnd.choice(BOUNDARY_BASES)
        else:
            self.base = E0 + timedelta(milliseconds=rnd.randrange(0, int(4.1e12)))
        self.scale = rnd.choice(scales)

    def tz(self):
        return timezone(timedelta(minutes=self.rnd.randrange(-840, 841)))

    def dt(self, tick):
        return (self.base + tick * self.scale * MS).astimezone(self.tz())

    # a sub-millisecond part carried by EVERY duration of a run (0 unless a harness sets it): the tick arithmetic of the
    # models is unaffected, durations with microseconds go through every write path
    eps = timedelta(0)

    def td(self, ticks):
        return ticks * self.scale * MS + self.eps

    def tick(self, dt):
        q, r = divmod(dt - self.base, MS * self.scale)
        return q if r == timedelta(0) and abs(q) < 2**30 else -99999

    def dur(self, td):
        q, r = divmod(td - self.eps, MS * self.scale)
        return q if r == timedelta(0) and abs(q) < 2**30 else -99999


class Executor:
    """Runs one abstract operation list against a datastore and records the trace."""

    def __init__(self, ds, kind, rnd, uniq, buckets=("A", "B", "C")):
        from aw_core.models import Event
        self.Event = Event
        self.ds, self.kind, self.rnd = ds, kind, rnd
        self.cz = Concretiser(rnd)
        self.cz.eps = timedelta(microseconds=rnd.choice([0, 0, 0, 251, 489, 1, 999, 47]))
        self.B = list(buckets)
        suffix = rnd.choice(["", "-üñ", "_x y"])
        self.bname = {b: "%s-%s%s" % (b, uniq, suffix) for b in self.B}
        self.h2id = {b: {} for b in self.B}   # handle -> implementation id, per bucket
        self.seen_ids = set()
        # what the caller knows without reading (for runs of calls without intermediate reads)
        self.handles = {b: [] for b in self.B}   # Bucket handles obtained earlier (kept across delete / re-create)
        self.sh_exists = {b: False for b in self.B}
        self.sh_live = {b: set() for b in self.B}

    # -- concretisation ------------------------------------------------------------------------
    def mkev(self, e, id=None):
        return self.Event(id=id, timestamp=self.cz.dt(e["ts"]), duration=self.cz.td(e["dur"]),
                          data=copy.deepcopy(DATA[e["d"]]))

    # -- projection ----------------------------------------------------------------------------
    def pev(self, e):
        return {"id": e.id if isinstance(e.id, int) else -2, "ts": self.cz.tick(e.timestamp),
                "dur": self.cz.dur(e.duration), "d": dname(e.data)}

    def pmeta(self, m):
        import iso8601
        try:
            created = self.cz.tick(iso8601.parse_date(m["created"]))
        except Exception:
            created = -99999
        return {"ex": True, "type": sname(m["type"]), "client": sname(m["client"]), "host": sname(m["hostname"]),
                "name": sname(m["name"]) if m["name"] != m["id"] else "id", "data": mname(m["data"]), "created": created,
                "idok": m["id"] is not None}

    def live_ids(self, b):
        try:
            return [e.id for e in self.ds[self.bname[b]].get(-1)]
        except Exception:
            return None

    def proj(self):
        st = {}
        try:
            listing = self.ds.buckets()
        except Exception as e:
            # the bucket listing itself cannot be produced: every bucket is recorded as existing in an unreadable state
            # (no step of the specification produces it), the projection stays total
            bad = {"ex": True, "type": "UNREADABLE-LISTING:" + type(e).__name__, "client": "?", "host": "?", "name": "?", "data": "?", "created": -99999, "idok": False}
            return {b: dict(bad, evs=[], byid=[], count=-1, lst=dict(bad), hd=[]) for b in self.B}
        for b in self.B:
            rb = self.bname[b]
            lst = self.pmeta(listing[rb]) if rb in listing else {"ex": False}
            # describing through handles that were obtained earlier (possibly before a delete / re-create of this id)
            hd = []
            for h in self.handles[b][-3:]:
                try:
                    hm = self.pmeta(h.metadata())
                    hm["out"] = "ok"
                except Exception as e:
                    hm = {"ex": False, "out": type(e).__name__}
                hd.append(hm)
            try:
                bucket = self.ds[rb]
            except KeyError:
                st[b] = {"ex": False, "lst": lst, "hd": hd}
                continue
            if not any(bucket is h for h in self.handles[b]):
                self.handles[b].append(bucket)
            try:
                m = self.pmeta(bucket.metadata())
                evs = [self.pev(e) for e in bucket.get(-1)]
                probes = sorted(self.seen_ids | {e["id"] for e in evs} | {987654})
                byid = []
                for i in probes:
                    r = bucket.get_by_id(i)
                    byid.append({"id": i, "hit": {"id": -1} if r is None else self.pev(r)})
                m.update(evs=evs, byid=byid, count=bucket.get_eventcount(), lst=lst, hd=hd)
            except Exception as e:
                # a handle was handed out but the bucket cannot be read: recorded as an existing bucket in an
                # unreadable state (no step of the specification produces it)
                m = {"ex": True, "type": "UNREADABLE:" + type(e).__name__, "client": "?", "host": "?", "name": "?", "data": "?", "created": -99999,
                     "idok": False, "evs": [], "byid": [], "count": -1, "lst": lst, "hd": hd}
            st[b] = m
        return st

    # -- execution -----------------------------------------------------------------------------
    BATCHABLE = ("create", "update", "delete_bucket", "absent", "insert", "replace", "delete")

    dead = False

    def _observe(self, rec):
        rec["st"] = self.proj()
        if any(str(rec["st"][b].get("type", "")).startswith("UNREADABLE-LISTING") for b in self.B):
            self.dead = True          # recorded (and rejected by the judge); the history cannot be continued on this store
        for b in self.B:
            ex = rec["st"][b]["ex"]
            self.sh_exists[b] = bool(ex)
            self.sh_live[b] = {e["id"] for e in rec["st"][b]["evs"]} if ex else set()
            if ex:
                self.seen_ids |= self.sh_live[b]
        return rec

    inject_foreign = False

    def run(self, ops, batch_prob=0.0):
        """batch_prob > 0: some runs of consecutive calls are issued without any read in between and recorded as one
        'batch' record (sub-calls with their outcomes, then one observation of the full state)"""
        trace = []
        i = 0
        while i < len(ops) and not self.dead:
            if batch_prob and self.rnd.random() < batch_prob and ops[i]["op"] in self.BATCHABLE:
                k = self.rnd.randint(2, 6)
                subs, j = [], i
                while j < len(ops) and len(subs) < k and ops[j]["op"] in self.BATCHABLE:
                    r = self.step_noread(ops[j])
                    if r is not None:
                        subs.append(r)
                    j += 1
                if subs and ((j < len(ops) and ops[j]["op"] == "foreign") or (self.inject_foreign and self.rnd.random() < 0.4)):
                    # an out-of-contract id as the last call of the run (no read before it either)
                    fop = ops[j] if j < len(ops) and ops[j]["op"] == "foreign" else {"op": "foreign", "b": self.rnd.choice(self.B)}
                    r = self.foreign_noread(fop)
                    if r is not None:
                        subs.append(r)
                    if j < len(ops) and ops[j]["op"] == "foreign":
                        j += 1
                i = j
                if subs:
                    trace.append(self._observe({"op": "batch", "b": subs[-1]["b"], "out": "ok", "ops": subs, "ctrl": {"has": False}}))
                continue
            rec = self.step(ops[i])
            i += 1
            if rec is None:
                continue
            trace.append(self._observe(rec))
        return trace

    def foreign_noread(self, op):
        b = op["b"]
        rb = self.bname[b]
        if not self.sh_exists[b]:
            return None
        others = sorted({x for c in self.B if c != b for x in self.sh_live[c]} - self.sh_live[b])
        want = self.rnd.choice(["live", "live", "huge", "dead"])
        if want == "live" and others:
            i = self.rnd.choice(others)
        elif want == "huge":
            i = 2 ** 64
        else:
            i = 987654
        e = op.get("ev") or {"ts": 1, "dur": 1, "d": "d1"}
        kind = self.rnd.choice(["replace", "upsert", "delete", "insert1"])
        rec = {"op": "foreign", "b": b, "kind": kind, "id": i if i < 2 ** 31 else -3, "out": "ok"}
        try:
            if kind == "replace":
                self.ds[rb].replace(i, self.mkev(e))
            elif kind == "upsert":
                self.ds[rb].insert([self.mkev(e, id=i)])
            elif kind == "insert1":
                self.ds[rb].insert(self.mkev(e, id=i))
            else:
                self.ds[rb].delete(i)
        except Exception as ex:
            rec["out"] = type(ex).__name__
        return rec

    def step_noread(self, op):
        """like step(), but decides applicability from what the caller already knows and never reads"""
        ds, b, o = self.ds, op["b"], op["op"]
        rb = self.bname[b]
        rec = {"op": o, "b": b}
        out = "ok"
        exists = self.sh_exists[b]
        try:
            if o == "create":
                if exists:
                    return None
                mt = op["meta"]
                rec["meta"] = dict(mt)
                self.sh_exists[b], self.sh_live[b], self.h2id[b] = True, set(), {}
                ds.create_bucket(rb, STRS[mt["type"]], STRS[mt["client"]], STRS[mt["host"]], created=self.cz.dt(mt["created"]),
                                 name=None if mt["name"] == "None" else STRS[mt["name"]],
                                 data=None if mt["data"] == "m0" else copy.deepcopy(META[mt["data"]]))
            elif o == "absent":
                if exists:
                    return None
                rec["kind"] = op["kind"]
                if op["kind"] == "lookup":
                    ds[rb]
                elif op["kind"] == "describe":
                    from aw_datastore.datastore import Bucket
                    Bucket(ds, rb).metadata()
                elif op["kind"] == "update":
                    ds.update_bucket(rb, name="zz")
                else:
                    ds.delete_bucket(rb)
            elif not exists:
                return None
            elif o == "update":
                f = op["f"]
                kw = {}
                for k, arg in (("type", "type_id"), ("client", "client"), ("host", "hostname"), ("name", "name")):
                    if f[k] != "-":
                        kw[arg] = STRS[f[k]]
                if f["data"] != "-":
                    kw["data"] = copy.deepcopy(META[f["data"]])
                if not kw:
                    return None
                rec["f"] = dict(f)
                ds.update_bucket(rb, **kw)
            elif o == "delete_bucket":
                self.sh_exists[b], self.sh_live[b], self.h2id[b] = False, set(), {}
                ds.delete_bucket(rb)
            elif o == "insert":
                e = op["ev"]
                rec["ev"] = {"ts": e["ts"], "dur": e["dur"], "d": e["d"]}
                rec["id"] = -2
                res = ds[rb].insert(self.mkev(e))
                rec["id"] = res.id if isinstance(res.id, int) else -2
                self.h2id[b][e["id"]] = rec["id"]
                self.sh_live[b].add(rec["id"])
            elif o == "replace":
                e = op["ev"]
                i = self.h2id[b].get(e["id"])
                if i is None or i not in self.sh_live[b]:
                    return None
                rec["id"] = i
                rec["ev"] = {"ts": e["ts"], "dur": e["dur"], "d": e["d"]}
                ds[rb].replace(i, self.mkev(e))
            elif o == "delete":
                i = self.h2id[b].get(op["id"])
                if i is None or i not in self.sh_live[b]:
                    i = 987654
                rec["id"] = i
                self.sh_live[b].discard(i)
                ds[rb].delete(i)
            else:
                return None
        except Exception as ex:
            out = type(ex).__name__
        rec["out"] = out
        return rec

    def cleanup(self):
        for b in self.B:
            try:
                if self.bname[b] in self.ds.buckets():
                    self.ds.delete_bucket(self.bname[b])
            except Exception:
                pass

    def _sync(self, b, before):
        """learn the implementation ids of newly inserted handles: ids now live that were not before"""
        after = self.live_ids(b) or []
        return [i for i in after if i not in before]

    def step(self, op):
        ds, b = self.ds, op["b"]
        rb = self.bname[b]
        o = op["op"]
        try:
            exists = rb in ds.buckets()
        except Exception:
            exists = self.sh_exists[b]        # the listing cannot be produced (recorded by the projection): go by what the caller knows
        rec = {"op": o, "b": b}
        out = "ok"
        if o == "create":
            if exists:
                return None
            mt = op["meta"]
            rec["meta"] = dict(mt)
            try:
                ds.create_bucket(rb, STRS[mt["type"]], STRS[mt["client"]], STRS[mt["host"]],
                                 created=self.cz.dt(mt["created"]),
                                 name=None if mt["name"] == "None" else STRS[mt["name"]],
                                 data=None if mt["data"] == "m0" else copy.deepcopy(META[mt["data"]]))
            except Exception as e:
                out = type(e).__name__
            self.h2id[b] = {}
        elif o == "absent":
            if exists:
                return None
            rec["kind"] = op["kind"]
            # the missing id may look like an existing one: the id of a live bucket with the letter case swapped is a different key
            if self.handles[b] and self.rnd.random() < 0.35:
                # a handle obtained while the bucket existed is used for an event write now that it is gone: whatever that call
                # does (it is outside the contract), the id stays absent and a later re-creation starts empty
                try:
                    self.handles[b][-1].insert(self.mkev({"ts": 1, "dur": 1, "d": "d1"}))
                except Exception:
                    pass
            lookalikes = [self.bname[c].swapcase() for c in self.B if c != b and self.sh_exists[c] and self.bname[c].swapcase() != self.bname[c]]
            if lookalikes and self.rnd.random() < 0.4:
                rb = self.rnd.choice(lookalikes)
            try:
                if op["kind"] == "lookup":
                    ds[rb]
                elif op["kind"] == "describe":
                    from aw_datastore.datastore import Bucket
                    Bucket(ds, rb).metadata()
                elif op["kind"] == "update":
                    ds.update_bucket(rb, name="zz")
                else:
                    ds.delete_bucket(rb)
            except Exception as e:
                out = type(e).__name__
        elif not exists:
            return None
        elif o == "update":
            f = op["f"]
            rec["f"] = dict(f)
            kw = {}
            for k, arg in (("type", "type_id"), ("client", "client"), ("host", "hostname"), ("name", "name")):
                if f[k] != "-":
                    kw[arg] = STRS[f[k]]
            if f["data"] != "-":
                kw["data"] = copy.deepcopy(META[f["data"]])
            if not kw:
                return None
            try:
                ds.update_bucket(rb, **kw)
            except Exception as e:
                out = type(e).__name__
        elif o == "delete_bucket":
            try:
                ds.delete_bucket(rb)
            except Exception as e:
                out = type(e).__name__
            self.h2id[b] = {}
        elif o == "insert":
            e = op["ev"]
            rec["ev"] = {"ts": e["ts"], "dur": e["dur"], "d": e["d"]}
            rec["id"] = -2
            try:
                res = ds[rb].insert(self.mkev(e))
                rec["id"] = res.id if isinstance(res.id, int) else -2
                self.h2id[b][e["id"]] = rec["id"]
            except Exception as ex:
                out = type(ex).__name__
        elif o == "bulk":
            live = self.live_ids(b)
            items, evl = [], []
            for u in op["ups"]:
                i = self.h2id[b].get(u["id"])
                if i is None or i not in live or any(it["id"] == i for it in items):
                    continue
                items.append({"id": i, "ts": u["ts"], "dur": u["dur"], "d": u["d"]})
            news = [n for n in op["news"]]
            for n in news:
                items.append({"id": -1, "ts": n["ts"], "dur": n["dur"], "d": n["d"]})
            if not items:
                return None
            self.rnd.shuffle(items)
            evl = [self.mkev(it, id=None if it["id"] == -1 else it["id"]) for it in items]
            rec["items"] = items
            try:
                ds[rb].insert(evl)
            except Exception as ex:
                out = type(ex).__name__
            fresh = self._sync(b, live)
            # map the new handles to the new ids by value (any consistent assignment will do)
            pool = []
            try:
                pool = [self.pev(x) for x in ds[rb].get(-1) if x.id in fresh]
            except Exception:
                pass
            for n in news:
                for p in pool:
                    if (p["ts"], p["dur"], p["d"]) == (n["ts"], n["dur"], n["d"]):
                        self.h2id[b][n["id"]] = p["id"]
                        pool.remove(p)
                        break
        elif o == "replace":
            e = op["ev"]
            i = self.h2id[b].get(e["id"])
            if i is None or i not in self.live_ids(b):
                return None
            rec["id"] = i
            rec["ev"] = {"ts": e["ts"], "dur": e["dur"], "d": e["d"]}
            try:
                # the event object handed over may carry an id of its own (stale or foreign): only the id argument addresses
                ds[rb].replace(i, self.mkev(e, id=self.rnd.choice([None, None, i, 987655, i + 1])))
            except Exception as ex:
                out = type(ex).__name__
        elif o == "replace_last":
            e = op["ev"]
            first = ds[rb].get(1)
            if not first:
                return None
            rec["pre1"] = first[0].id
            rec["ev"] = {"ts": e["ts"], "dur": e["dur"], "d": e["d"]}
            try:
                # the event object handed over may carry an id of its own (a read-back of an OLDER event, edited): replace-last
                # rewrites the newest event whatever id the object carries
                older = sorted(i for i in (self.live_ids(b) or []) if i != first[0].id)
                carried = self.rnd.choice([None, None, None, first[0].id] + older[:2])
                ds[rb].replace_last(self.mkev(e, id=carried))
            except Exception as ex:
                out = type(ex).__name__
        elif o == "delete":
            i = self.h2id[b].get(op["id"])
            if i is None:
                kind = op.get("dead") or self.rnd.choice(["never", "used", "elsewhere"])
                i = 987654 if kind == "never" or not self.seen_ids else max(self.seen_ids) + 7
                if kind == "elsewhere":
                    # an id that is live in another bucket only: for this bucket it never existed, the call removes nothing
                    mine = set(self.live_ids(b) or [])
                    cands = sorted({x for c in self.B if c != b for x in (self.live_ids(c) or []) if x not in mine})
                    if cands:
                        i = self.rnd.choice(cands)
            rec["id"] = i
            try:
                ds[rb].delete(i)
            except Exception as ex:
                out = type(ex).__name__
        elif o == "foreign":
            # an id that is not live in the addressed bucket: live in another bucket if possible, else dead
            live = self.live_ids(b)
            cands = []
            for c in self.B:
                if c != b:
                    cands += [i for i in (self.live_ids(c) or []) if i not in live]
            dead = [i for i in self.seen_ids if i not in live and i not in cands]
            i = None
            want = op.get("want", "live")
            if want == "live" and cands:
                i = self.rnd.choice(sorted(cands))
            elif dead:
                i = self.rnd.choice(sorted(dead))
            elif cands:
                i = self.rnd.choice(sorted(cands))
            else:
                i = 987654
            if self.rnd.random() < 0.1:
                i = 2 ** 64                      # an absurd id: rejected or ignored, never harmful to other buckets
            e = op.get("ev") or {"ts": 1, "dur": 1, "d": "d1"}
            kind = op.get("kind") or self.rnd.choice(["replace", "upsert", "delete", "insert1"])
            rec.update(id=i if i < 2 ** 31 else -3, kind=kind)
            try:
                if kind == "replace":
                    ds[rb].replace(i, self.mkev(e))
                elif kind == "upsert":
                    ds[rb].insert([self.mkev(e, id=i)])
                elif kind == "insert1":
                    # a SINGLE insert of an event object that carries another bucket's id (the same object inserted into two buckets)
                    ds[rb].insert(self.mkev(e, id=i))
                else:
                    ds[rb].delete(i)
            except Exception as ex:
                out = type(ex).__name__
        else:
            raise ValueError("unknown op " + o)
        rec["out"] = out
        return rec

    def _live_elsewhere(self, b, i):
        for c in self.B:
            if c != b and i in (self.live_ids(c) or []):
                return True
        return False


# -------------------------------------------------------------------------------------------------
# a second behaviour source: random abstract histories (same operation vocabulary as AwStoreGen)

def random_history(rnd, profile="mixed", buckets=("A", "B", "C"), maxlen=16):
    """Abstract operation list; handles are small ints per bucket.  Only a shadow of which handles are
    live is kept (to stay inside the properties' quantifiers), never any expected result."""
    live = {b: set() for b in buckets}
    exists = {b: False for b in buckets}
    nexth = {b: 0 for b in buckets}
    ops = []
    ticks = [0, 0, 1, 2, 3] if profile != "ties" else [0, 0, 1]
    durs = [0, 0, 1, 2, 3]

    def ev(h):
        return {"id": h, "ts": rnd.choice(ticks), "dur": rnd.choice(durs), "d": rnd.choice(list(DATA))}

    def newh(b):
        nexth[b] += 1
        return nexth[b] + 100

    for _ in range(rnd.randint(6, maxlen)):
        b = rnd.choice(buckets)
        if not exists[b]:
            if rnd.random() < (0.75 if profile != "lifecycle" else 0.6):
                mt = {"type": rnd.choice(["s1", "s2"]), "client": rnd.choice(["s1", "s3"]), "host": rnd.choice(["s1", "s2"]),
                      "name": rnd.choice(["s1", "s3", "None"]), "data": rnd.choice(["m0", "m1", "m2"]), "created": rnd.randrange(0, 50)}
                ops.append({"op": "create", "b": b, "meta": mt})
                exists[b] = True
                live[b] = set()
            else:
                ops.append({"op": "absent", "b": b, "kind": rnd.choice(["lookup", "describe", "update", "delete"])})
            continue
        r = rnd.random()
        lifecycle = profile == "lifecycle"
        if r < (0.25 if not lifecycle else 0.2):
            h = newh(b)
            ops.append({"op": "insert", "b": b, "ev": ev(h)})
            live[b].add(h)
        elif r < (0.40 if not lifecycle else 0.28):
            ups, news = [], []
            pool = sorted(live[b])
            for _ in range(rnd.randint(1, 3)):
                if pool and rnd.random() < 0.4:
                    h = rnd.choice(pool)
                    pool.remove(h)
                    ups.append(ev(h))
                else:
                    h = newh(b)
                    news.append(ev(h))
                    live[b].add(h)
            if rnd.random() < 0.15:   # duplicates of one value
                h = newh(b)
                news.append(dict(news[0], id=h) if news else ev(h))
                live[b].add(h)
            ops.append({"op": "bulk", "b": b, "ups": ups, "news": news})
        elif r < (0.52 if not lifecycle else 0.32) and live[b]:
            ops.append({"op": "replace", "b": b, "ev": ev(rnd.choice(sorted(live[b])))})
        elif r < (0.66 if not lifecycle else 0.38) and live[b]:
            ops.append({"op": "replace_last", "b": b, "ev": ev(-1)})
        elif r < (0.76 if not lifecycle else 0.44):
            if live[b] and rnd.random() < 0.8:
                h = rnd.choice(sorted(live[b]))
                live[b].discard(h)
                ops.append({"op": "delete", "b": b, "id": h})
            else:
                ops.append({"op": "delete", "b": b, "id": -5, "dead": rnd.choice(["never", "used", "elsewhere", "elsewhere"])})
        elif r < (0.84 if not lifecycle else 0.48) and profile in ("frame", "mixed"):
            ops.append({"op": "foreign", "b": b, "kind": rnd.choice(["replace", "upsert", "delete"]),
                        "want": rnd.choice(["live", "live", "dead"]), "ev": ev(-1)})
        elif r < (0.92 if not lifecycle else 0.78):
            f = {k: "-" for k in ("type", "client", "host", "name", "data")}
            for k, vals in (("type", ["s1", "s2", "s3"]), ("client", ["s2", "s3"]), ("host", ["s1", "s3"]), ("name", ["s1", "s2"]),
                            ("data", ["m1", "m2"])):
                if rnd.random() < 0.4:
                    f[k] = rnd.choice(vals)
            if all(v == "-" for v in f.values()):
                f["data"] = "m1"
            ops.append({"op": "update", "b": b, "f": f})
        else:
            ops.append({"op": "delete_bucket", "b": b})
            exists[b] = False
            live[b] = set()
    return ops


# -------------------------------------------------------------------------------------------------
# frame probes (C04 without intermediate reads): a run of writes, then ONE call addressed to another bucket, then
# one observation - and a control execution of the same history without that last call

def random_probe(rnd):
    """(setup ops, run of no-read calls whose last one addresses a bucket none of the others addressed)"""
    ev = lambda i: {"id": i, "ts": rnd.randrange(0, 4), "dur": rnd.randrange(0, 3), "d": rnd.choice(["d1", "d2"])}
    meta = lambda: {"type": "s1", "client": "s1", "host": "s1", "name": rnd.choice(["s1", "None"]), "data": rnd.choice(["m0", "m1"]), "created": 0}
    other = "C"
    setup = [{"op": "create", "b": "A", "meta": meta()}]
    if rnd.random() < 0.7:
        setup.append({"op": "create", "b": "B", "meta": meta()})
    c_exists = rnd.random() < 0.5
    if c_exists:
        setup.append({"op": "create", "b": other, "meta": meta()})
        for i in range(rnd.randint(0, 2)):
            setup.append({"op": "insert", "b": other, "ev": ev(10 + i)})
    nid = [0]
    for b in ("A", "B"):
        for _ in range(rnd.randint(0, 2)):
            if b == "A" or len(setup) > 1 and setup[1]["b"] == "B":
                setup.append({"op": "insert", "b": b, "ev": ev(nid[0])})
                nid[0] += 1
    run = []
    targets = ["A"] + (["B"] if any(o["op"] == "create" and o["b"] == "B" for o in setup) else [])
    for _ in range(rnd.randint(1, 5)):
        b = rnd.choice(targets)
        k = rnd.choice(["insert", "insert", "insert", "update", "delete", "replace"])
        if k == "insert":
            run.append({"op": "insert", "b": b, "ev": ev(100 + len(run))})
        elif k == "update":
            run.append({"op": "update", "b": b, "f": {"type": "-", "client": "s2", "host": "-", "name": "-", "data": "-"}})
        elif k == "delete":
            run.append({"op": "delete", "b": b, "id": rnd.randrange(0, 3)})
        else:
            run.append({"op": "replace", "b": b, "ev": ev(rnd.randrange(0, 3))})
    if c_exists:
        last = rnd.choice([{"op": "delete_bucket", "b": other}, {"op": "update", "b": other, "f": {"type": "s2", "client": "-", "host": "-", "name": "-", "data": "-"}},
                           {"op": "insert", "b": other, "ev": ev(50)}, {"op": "delete", "b": other, "id": 10}, {"op": "delete", "b": other, "id": 77},
                           {"op": "replace", "b": other, "ev": ev(10)}, {"op": "foreign", "b": other}])
    else:
        last = rnd.choice([{"op": "absent", "b": other, "kind": k} for k in ("lookup", "describe", "update", "delete")] + [{"op": "create", "b": other, "meta": meta()}])
    return setup, run + [last]


def _probe_once(kind, root, tag, seed, uniq, setup, run):
    ds = mk_datastore(kind, root, tag)
    try:
        ex = Executor(ds, kind, random.Random(seed), uniq)
        tr = []
        for o in setup:
            r = ex.step(o)
            if r is not None:
                tr.append(ex._observe(r))
        pre = ex.proj()
        subs = []
        for o in run:
            r = ex.foreign_noread(o) if o["op"] == "foreign" else ex.step_noread(o)
            if r is not None:
                subs.append(r)
        st = ex.proj()
        base, scale = ex.cz.base.isoformat(), ex.cz.scale
    finally:
        close_datastore(kind, ds)
    return tr, pre, subs, st, base, scale


def _probe_worker(args):
    kind, seed, jobs = args
    root = common.scratch_dir("p%d_%s_%d" % (os.getpid(), kind, seed % 100000))
    out = []
    try:
        for n, (key, (setup, run)) in enumerate(jobs):
            s = seed * 1000 + n
            # control: the same history in a fresh store, without the last call of the run
            _, cpre, csubs, cst, _, _ = _probe_once(kind, root, "c%d" % n, s, "%s%d" % (key, n), setup, run[:-1])
            tr, pre, subs, st, base, scale = _probe_once(kind, root, "f%d" % n, s, "%s%d" % (key, n), setup, run)
            if not subs or len(subs) != len(csubs) + 1:
                continue          # the last call was not applicable (nothing to probe)
            rec = {"op": "batch", "b": subs[-1]["b"], "out": "ok", "ops": subs, "st": st,
                   "ctrl": {"has": True, "pre": cpre, "ops": csubs, "st": cst}}
            out.append((key, {"backend": kind, "base": base, "scale": scale, "ops": setup + run, "probe": [setup, run], "trace": tr + [rec]}))
    finally:
        shutil.rmtree(root, ignore_errors=True)
    return out


def run_probes(probes, seed, backends=BACKENDS, procs=None):
    procs = procs or common.ncpu()
    per = max(1, procs // len(backends))
    tasks = []
    for bi, kind in enumerate(backends):
        for w in range(per):
            jobs = probes[w::per]
            if jobs:
                tasks.append((kind, seed * 1000 + bi * 100 + w, jobs))
    res = common.pmap(_probe_worker, tasks, procs=len(tasks))
    flat = []
    for part in res:
        for key, rec in part:
            rec["key"] = key
            flat.append(rec)
    return flat


def restrict(ops, allow_foreign):
    return [o for o in ops if allow_foreign or o["op"] != "foreign"]


# -------------------------------------------------------------------------------------------------
# running batches in worker processes

def _worker(args):
    kind, seed, jobs, fresh_every, batch_prob = args
    rnd = random.Random(seed)
    root = common.scratch_dir("w%d_%s_%d" % (os.getpid(), kind, seed % 100000))
    out = []
    ds = None
    try:
        for n, (key, ops) in enumerate(jobs):
            if ds is None or n % fresh_every == 0:
                if ds is not None:
                    close_datastore(kind, ds)
                ds = mk_datastore(kind, root, "db%d" % n)
            ex = Executor(ds, kind, rnd, "%s%d" % (key, n))
            ex.inject_foreign = any(o["op"] == "foreign" for o in ops) or key.startswith("F")
            tr = ex.run(ops, batch_prob=batch_prob)
            ex.cleanup()
            out.append((key, {"backend": kind, "base": ex.cz.base.isoformat(), "scale": ex.cz.scale, "ops": ops, "trace": tr}))
    finally:
        if ds is not None:
            close_datastore(kind, ds)
        shutil.rmtree(root, ignore_errors=True)
    return out


def run_batch(behaviours, seed, backends=BACKENDS, procs=None, fresh_every=25, batch_prob=0.25):
    """behaviours: list of (key, ops).  Every behaviour is run on every backend.
    Returns list of dicts(backend, key, ops, trace, ...)."""
    procs = procs or common.ncpu()
    per = max(1, procs // len(backends))
    tasks = []
    for bi, kind in enumerate(backends):
        for w in range(per):
            jobs = behaviours[w::per]
            if jobs:
                tasks.append((kind, seed * 1000 + bi * 100 + w, jobs, fresh_every, batch_prob))
    res = common.pmap(_worker, tasks, procs=len(tasks))
    flat = []
    for part in res:
        for key, rec in part:
            rec["key"] = key
            flat.append(rec)
    return flat


def parse_gen_output(out):
    """Behaviours printed by AwStoreGen's Emit invariant: <<"BEHAVIOUR", "<json>">>."""
    import re
    res, seen = [], set()
    for m in re.finditer(r'<<"BEHAVIOUR", "(.*)">>', out):
        s = m.group(1).encode().decode("unicode_escape") if "\\" in m.group(1) else m.group(1)
        if s in seen:
            continue
        seen.add(s)
        res.append(json.loads(s))
    return res


def from_model_ops(mops):
    """Translate AwStoreGen operation records into the executor's vocabulary."""
    ops = []
    for o in mops:
        k = o["op"]
        if k == "create":
            ops.append({"op": "create", "b": o["b"], "meta": o["meta"]})
        elif k == "update":
            ops.append({"op": "update", "b": o["b"], "f": o["f"]})
        elif k == "delete_bucket":
            ops.append({"op": "delete_bucket", "b": o["b"]})
        elif k == "absent":
            ops.append({"op": "absent", "b": o["b"], "kind": o["kind"]})
        elif k in ("insert", "replace", "replace_last"):
            ops.append({"op": k, "b": o["b"], "ev": o["ev"]})
        elif k == "bulk":
            ops.append({"op": "bulk", "b": o["b"], "ups": list(o["ups"]), "news": list(o["news"])})
        elif k == "delete":
            ops.append({"op": "delete", "b": o["b"], "id": o["id"]})
        elif k == "foreign":
            ops.append({"op": "foreign", "b": o["b"], "ev": {"id": -1, "ts": 1, "dur": 1, "d": "d1"}})
    return ops
