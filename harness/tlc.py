"""TLC driver: model-check a module, and judge batches of recorded traces with a trace specification.

Nothing in here decides a property: it starts TLC, hands it files and parses what TLC printed.
"""
import json
import os
import re
import shutil
import subprocess
import time

from . import common

JAR_CP = "/opt/veriftools/tla/tla2tools.jar:/opt/veriftools/tla/CommunityModules-deps.jar"
SPEC_DIR = os.path.join(common.VERIF, "spec")


class TLCFailure(Exception):
    """TLC could not be run or reported something that is not a verdict (machinery failure, exit 2)."""


def _java(args, env=None, timeout=3600, cwd=SPEC_DIR, heap="6g", deque=False):
    e = dict(os.environ)
    if env:
        e.update(env)
    opts = ["-XX:+UseParallelGC", "-Xmx" + heap, "-Xss64m"]
    if deque:
        opts.append("-Dtlc2.tool.queue.IStateQueue=StateDeque")
    cmd = ["java"] + opts + ["-cp", JAR_CP, "tlc2.TLC"] + args
    t0 = time.time()
    try:
        p = subprocess.run(cmd, cwd=cwd, env=e, stdout=subprocess.PIPE, stderr=subprocess.STDOUT,
                           timeout=timeout, text=True, errors="replace")
    except subprocess.TimeoutExpired as ex:
        out = ex.stdout if isinstance(ex.stdout, str) else (ex.stdout or b"").decode("utf8", "replace")
        raise TLCFailure("TLC timed out after %ss: %s\n%s" % (timeout, " ".join(args), out[-2000:]))
    return p.returncode, p.stdout, time.time() - t0


_RE_STATES = re.compile(r"(\d+) states generated, (\d+) distinct states found, (\d+) states left on queue")
_RE_DEPTH = re.compile(r"The depth of the complete state graph search is (\d+)")


def write_cfg(text, name):
    p = os.path.join(common.scratch(), name)
    with open(p, "w") as f:
        f.write(text)
    return p


def model_check(module, cfg_text, workers=None, timeout=1800, coverage=False, extra=None, env=None, heap="6g",
                expect_ok=True, tag=None):
    """Exhaustive TLC run of spec/<module>.tla under the given configuration.

    Returns dict(states, transitions, depth, ok, out, wall_s).  ok is False when TLC reports an
    invariant/property violation or deadlock; other failures raise TLCFailure."""
    workers = workers or common.ncpu()
    tag = tag or module
    cfg = write_cfg(cfg_text, "%s.%d.cfg" % (tag, int(time.time() * 1000) % 100000000))
    meta = common.scratch_dir("meta_" + tag)
    args = ["-workers", str(workers), "-metadir", meta, "-noGenerateSpecTE", "-config", cfg]
    if coverage:
        args += ["-coverage", "1"]
    if extra:
        args += extra
    args.append(module + ".tla")
    rc, out, wall = _java(args, env=env, timeout=timeout, heap=heap)
    shutil.rmtree(meta, ignore_errors=True)
    m = None
    for m in _RE_STATES.finditer(out):
        pass
    if m is None:
        raise TLCFailure("TLC produced no state count for %s:\n%s" % (module, out[-3000:]))
    violated = ("is violated" in out) or ("Deadlock reached" in out) or ("Error:" in out and rc != 0)
    if rc != 0 and not violated:
        raise TLCFailure("TLC failed on %s (rc=%d):\n%s" % (module, rc, out[-3000:]))
    d = _RE_DEPTH.search(out)
    res = dict(module=module, transitions=int(m.group(1)), states=int(m.group(2)), depth=int(d.group(1)) if d else None,
               ok=not violated, out=out, wall_s=round(wall, 2))
    if expect_ok and violated:
        raise TLCFailure("model %s does not satisfy its own properties (machinery/spec defect):\n%s" % (module, out[-4000:]))
    return res


def coverage_counts(out):
    """Parse '-coverage 1' output: action name -> (distinct, total) counts."""
    res = {}
    for m in re.finditer(r"<(\w+) line \d+, col \d+ to line \d+, col \d+ of module (\w+)>: (\d+):(\d+)", out):
        res[m.group(1)] = (int(m.group(3)), int(m.group(4)))
    return res


# TLC wraps long tuples over several lines: allow any whitespace between the tokens
_RE_ACCEPT = re.compile(r'<<\s*"ACCEPT",\s*(\d+)\s*>>')
_RE_REJECT = re.compile(r'<<\s*"REJECT",\s*(\d+),\s*(\d+),\s*("[^"]*"),\s*("[^"]*")\s*>>')


def judge(module, cfg_text, traces, workers=None, timeout=3600, env=None, heap="8g", tag=None, chunk=None, existential=False):
    """Validate a list of traces (JSON-serialisable) with trace specification spec/<module>.tla.

    The trace spec reads the whole list from IOEnv.TRACE_FILE, starts one behaviour per trace
    (variable tid), prints <<"ACCEPT", tid>> when a trace was consumed completely and
    <<"REJECT", tid, l, op, clauses>> when no step is enabled at record l.
    With existential=True the trace spec is nondeterministic (several candidate explanations per record): a
    trace is accepted as soon as ACCEPT is printed for it, and REJECT lines only describe stuck choices.
    A judge may resynchronise after a REJECT and go on, so a trace can have several REJECT lines; it is
    accepted when its end was reached without any.
    Returns (accepted: set of 0-based indices, rejected: dict index -> list of info dicts, stats)."""
    workers = workers or common.ncpu()
    tag = tag or module
    n = len(traces)
    accepted, rejected = set(), {}
    stats = dict(states=0, transitions=0, wall_s=0.0, runs=0)
    if n == 0:
        return accepted, rejected, stats
    chunk = chunk or n
    for lo in range(0, n, chunk):
        part = traces[lo:lo + chunk]
        acc, rej = _judge_once(module, cfg_text, part, workers, timeout, env, heap, tag, stats)
        missing = set(range(len(part))) - acc
        if len(part) > 3 and len(missing) == len(part) and not rej:
            raise TLCFailure("trace judge %s explained none of %d traces:\n%s" % (module, len(part), stats.get("last_out", "")))
        if missing:
            # interleaved output or an evaluation error: re-judge the unexplained traces one worker, one at a time
            for i in sorted(missing):
                a2, r2 = _judge_once(module, cfg_text, [part[i]], 1, timeout, env, heap, tag, stats, tolerate_error=True)
                if 0 in a2:
                    acc.add(i)
                    if 0 in r2:
                        rej[i] = r2[0]
                else:
                    rej[i] = r2.get(0, []) + [dict(l=None, op=None, clauses="TLC could not evaluate the trace to its end (malformed record?)")]
        if existential:
            rej = {i: v for i, v in rej.items() if i not in acc}
        accepted |= {lo + i for i in acc if i not in rej}
        for i, info in rej.items():
            rejected[lo + i] = sorted(info, key=lambda x: (x["l"] is None, x["l"]))
    return accepted, rejected, stats


def _judge_once(module, cfg_text, traces, workers, timeout, env, heap, tag, stats, tolerate_error=False):
    stamp = "%s.%d.%d" % (tag, os.getpid(), int(time.time() * 1e6) % 10**10)
    tf = os.path.join(common.scratch(), "traces.%s.json" % stamp)
    with open(tf, "w") as f:
        json.dump(traces, f, separators=(",", ":"))
    cfg = write_cfg(cfg_text, "judge.%s.cfg" % stamp)
    meta = common.scratch_dir("meta_" + stamp)
    e = {"TRACE_FILE": tf}
    if env:
        e.update(env)
    args = ["-workers", str(workers), "-metadir", meta, "-noGenerateSpecTE", "-config", cfg, module + ".tla"]
    rc, out, wall = _java(args, env=e, timeout=timeout, heap=heap)
    shutil.rmtree(meta, ignore_errors=True)
    os.remove(tf)
    m = None
    for m in _RE_STATES.finditer(out):
        pass
    if m:
        stats["transitions"] += int(m.group(1))
        stats["states"] += int(m.group(2))
    stats["wall_s"] = round(stats["wall_s"] + wall, 2)
    stats["runs"] += 1
    if ("Parsing or semantic analysis failed" in out) or ("Semantic errors" in out) or ("Could not" in out and m is None):
        raise TLCFailure("trace spec %s does not load:\n%s" % (module, out[-3000:]))
    if m is None and not tolerate_error:
        if len(traces) == 1:
            raise TLCFailure("trace judge %s failed:\n%s" % (module, out[-3000:]))
    acc = {int(x) - 1 for x in _RE_ACCEPT.findall(out)}
    rej = {}
    for mm in _RE_REJECT.finditer(out):
        tid = int(mm.group(1)) - 1
        item = dict(l=int(mm.group(2)), op=mm.group(3).strip('"'), clauses=mm.group(4))
        if item not in rej.setdefault(tid, []):
            rej[tid].append(item)
    stats.setdefault("last_out", "")
    stats["last_out"] = out[-1500:]
    return acc, rej


def check_canary_pairs(acc, start, npairs, what):
    """Canaries come in pairs appended after the real traces: the record as the implementation produced it (control) and
    the same record with one field corrupted.  The corrupted one must be rejected whenever the control is accepted (if
    the control itself is rejected - the tree under test is wrong there - the pair says nothing).  Returns the number of
    pairs that demonstrated the binding."""
    shown = 0
    for k in range(npairs):
        ctrl, bad = start + 2 * k, start + 2 * k + 1
        if ctrl in acc:
            if bad in acc:
                raise TLCFailure("canary (%s) accepted by the judge" % what)
            shown += 1
    return shown


def simulate(module, cfg_text, num, depth, seed, env=None, timeout=1800, workers=1, tag=None, extra=None):
    """Run TLC in simulation mode; the module's invariant prints behaviours.  Returns TLC's stdout."""
    tag = tag or module
    cfg = write_cfg(cfg_text, "%s.sim.%d.cfg" % (tag, int(time.time() * 1000) % 100000000))
    meta = common.scratch_dir("meta_sim_" + tag)
    args = ["-simulate", "num=%d" % num, "-depth", str(depth), "-seed", str(seed), "-workers", str(workers),
            "-metadir", meta, "-noGenerateSpecTE", "-config", cfg]
    if extra:
        args += extra
    args.append(module + ".tla")
    rc, out, wall = _java(args, env=env, timeout=timeout)
    shutil.rmtree(meta, ignore_errors=True)
    if "Parsing or semantic analysis failed" in out or "Semantic errors" in out:
        raise TLCFailure("generator spec %s does not load:\n%s" % (module, out[-3000:]))
    return out


def sany(module):
    cmd = ["java", "-cp", JAR_CP, "tla2sany.SANY", module + ".tla"]
    p = subprocess.run(cmd, cwd=SPEC_DIR, stdout=subprocess.PIPE, stderr=subprocess.STDOUT, text=True)
    ok = p.returncode == 0 and "Semantic errors" not in p.stdout and "Fatal errors" not in p.stdout \
        and "Could not find" not in p.stdout and "*** Errors" not in p.stdout
    return ok, p.stdout
