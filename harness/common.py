"""Shared plumbing: scratch space, evidence files, known findings, replay files, process pools."""
import atexit
import hashlib
import json
import os
import shutil
import sys
import time

VERIF = os.path.dirname(os.path.dirname(os.path.abspath(__file__)))
REPO = os.environ.get("AW_REPO", "/repo")
# VERIF_OUT_DIR / VERIF_EVIDENCE_DIR redirect replay and evidence files (used when a check is pointed at a
# scratch tree with AW_REPO, e.g. to evaluate a seeded change, so that /verif/evidence is not overwritten)
OUT = os.environ.get("VERIF_OUT_DIR", os.path.join(VERIF, "out"))
EVIDENCE = os.environ.get("VERIF_EVIDENCE_DIR", os.path.join(VERIF, "evidence"))
FINDINGS = os.path.join(VERIF, "known_findings.json")

_scratch = None
_owner = None
_root = None


def ncpu():
    try:
        return max(1, min(16, len(os.sched_getaffinity(0))))
    except Exception:
        return os.cpu_count() or 4


def scratch():
    """Per-process scratch directory under /dev/shm (never /tmp, never the user's data dir)."""
    global _scratch, _owner, _root
    if _scratch is None or _owner != os.getpid():
        if _scratch is not None and _root is not None and os.path.isdir(_root):
            # a forked worker (pool workers end without running atexit handlers): its scratch lives inside the scratch of
            # the process that started the check, which removes the whole tree when it exits
            _scratch = os.path.join(_root, "child.%d" % os.getpid())
            os.makedirs(_scratch, exist_ok=True)
            _owner = os.getpid()
            return _scratch
        base = "/dev/shm" if os.path.isdir("/dev/shm") and os.access("/dev/shm", os.W_OK) else VERIF + "/out"
        _scratch = os.path.join(base, "awverif.%d" % os.getpid())
        os.makedirs(_scratch, exist_ok=True)
        _owner = os.getpid()
        _root = _scratch
        atexit.register(_cleanup, _scratch, os.getpid())
    return _scratch


def _cleanup(path, pid):
    if os.getpid() == pid:
        shutil.rmtree(path, ignore_errors=True)


def scratch_dir(name):
    p = os.path.join(scratch(), name)
    os.makedirs(p, exist_ok=True)
    return p


def use_repo():
    """Make sure aw_* is imported from the tree under test (AW_REPO, default /repo's working tree)."""
    if REPO not in sys.path:
        sys.path.insert(0, REPO)
    import logging
    logging.disable(logging.CRITICAL)


def isolate_user_dirs():
    """Point XDG dirs at scratch so nothing touches the user's activitywatch data/config."""
    d = scratch_dir("xdg")
    for k in ("XDG_DATA_HOME", "XDG_CONFIG_HOME", "XDG_CACHE_HOME", "XDG_STATE_HOME"):
        os.environ[k] = os.path.join(d, k.lower())
        os.makedirs(os.environ[k], exist_ok=True)
        # the library creates <dir>/activitywatch/<module> on first use with a check-then-create that is not safe when
        # several freshly forked workers do it at the same moment (seen once as FileExistsError in a worker on a fresh
        # sandbox): the directories exist before any worker starts
        for sub_ in ("activitywatch", os.path.join("activitywatch", "aw-server"), os.path.join("activitywatch", "log"), os.path.join("activitywatch", "aw-core")):
            os.makedirs(os.path.join(os.environ[k], sub_), exist_ok=True)
    os.environ["HOME"] = d


# ---------------------------------------------------------------------------------------------
# known findings

def load_findings():
    if not os.path.exists(FINDINGS):
        return []
    with open(FINDINGS) as f:
        return json.load(f).get("findings", [])


def match_known(prop, sig):
    """Return the known (unfixed) finding whose signature is contained in sig, or None.

    A finding suppresses only violations whose signature has the same values for every key it lists;
    'fixed' entries never suppress anything."""
    for f in load_findings():
        if f.get("property") != prop or f.get("status") != "known":
            continue
        want = f.get("signature", {})
        if all(str(sig.get(k)) == str(v) for k, v in want.items()):
            return f
    return None


# ---------------------------------------------------------------------------------------------
# replay files and verdict lines

def save_replay(prop, payload):
    d = os.path.join(OUT, "replay", prop)
    os.makedirs(d, exist_ok=True)
    blob = json.dumps(payload, sort_keys=True, default=str)
    name = hashlib.sha1(blob.encode()).hexdigest()[:12] + ".json"
    p = os.path.join(d, name)
    with open(p, "w") as f:
        f.write(blob)
    return p


class Report:
    """Collects what a check run did; prints verdict lines; writes the evidence file."""

    def __init__(self, prop, tier, seed, level="model_checking"):
        self.prop, self.tier, self.seed, self.level = prop, tier, seed, level
        self.t0 = time.time()
        self.violations = []       # (signature dict, text, replay path)
        self.known = {}            # finding id -> count
        self.cov = dict(states=0, transitions=0, traces_validated_against_impl=0, samples=[],
                        evaluations=0, distinct_nontrivial=0, rule="", exhaustive=False)
        self.assumptions = []
        self.models = []
        self.notes = {}

    def add_model(self, res, what):
        self.cov["states"] += res["states"]
        self.cov["transitions"] += res["transitions"]
        self.models.append(dict(module=res["module"], what=what, states=res["states"], transitions=res["transitions"],
                                depth=res.get("depth"), wall_s=res.get("wall_s")))

    def add_judge_stats(self, stats):
        self.cov["states"] += stats.get("states", 0)
        self.cov["transitions"] += stats.get("transitions", 0)

    def sample(self, x, cap=6):
        if len(self.cov["samples"]) < cap:
            self.cov["samples"].append(x)

    def violation(self, sig, text, payload):
        """Record a rejected implementation trace.  Known findings are listed, others are violations."""
        k = match_known(self.prop, sig)
        if k is not None:
            key = k.get("id") or k.get("what")
            self.known[key] = self.known.get(key, 0) + 1
            return False
        payload = dict(payload)
        payload.setdefault("property", self.prop)
        payload.setdefault("signature", sig)
        payload.setdefault("seed", self.seed)
        path = save_replay(self.prop, payload)
        self.violations.append((sig, text, path))
        return True

    def finish(self):
        wall = round(time.time() - self.t0, 2)
        for f in load_findings():
            if f.get("property") == self.prop and f.get("status") == "known":
                key = f.get("id") or f.get("what")
                if key in self.known:
                    print("KNOWN-FINDING: property=%s %s (seen %d times in this run)" % (self.prop, f.get("what"), self.known[key]))
                else:
                    print("KNOWN-FINDING: property=%s %s (not reached in this run)" % (self.prop, f.get("what")))
        shown = 0
        for sig, text, path in self.violations:
            if shown < 25:
                print("VIOLATION property=%s replay=%s" % (self.prop, path))
                print("  " + text)
            shown += 1
        if shown > 25:
            print("  ... and %d more violations" % (shown - 25))
        cov = dict(self.cov)
        cov["models"] = self.models
        cov.update(self.notes)
        if not cov.get("rule"):
            cov["rule"] = "see models / explanation"
        ev = dict(property_id=self.prop, tier=self.tier, seed=self.seed, level=self.level, coverage=cov,
                  assumptions=self.assumptions, wall_s=wall, violations=len(self.violations),
                  known_findings_seen=self.known)
        if not os.environ.get("VERIF_REPLAY"):        # a replay of one recorded case does not overwrite the evidence of the last full run
            os.makedirs(EVIDENCE, exist_ok=True)
            with open(os.path.join(EVIDENCE, self.prop + ".json"), "w") as f:
                json.dump(ev, f, indent=1, sort_keys=True, default=str)
                f.write("\n")
        print("%s %s: %s (model states=%d, impl traces=%d, violations=%d, wall=%.1fs)" % (
            self.prop, self.tier, "OK" if not self.violations else "VIOLATED", cov["states"],
            cov["traces_validated_against_impl"], len(self.violations), wall))
        return 1 if self.violations else 0


def pmap(fn, items, procs=None, chunksize=1):
    """Parallel map in forked workers (harness work only: concretise, run the real code, project)."""
    import multiprocessing as mp
    procs = procs or ncpu()
    if procs <= 1 or len(items) <= 1:
        return [fn(x) for x in items]
    ctx = mp.get_context("fork")
    with ctx.Pool(min(procs, len(items))) as pool:
        return pool.map(fn, items, chunksize)
