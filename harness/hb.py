"""Pass 2 for C07 / C08: enumerate heartbeat pairs, lists and streams on a small grid, run the real
heartbeat_merge / heartbeat_reduce and the real ingestion loop through a bucket, record for the judge.
Unit in the traces: half a tick (tick = `scale` ms), so pulsetimes of half a tick are integers."""
import copy
import itertools
import json
import os
import random
import shutil
from datetime import timedelta, timezone

from . import common, store

common.use_repo()
MS = timedelta(milliseconds=1)


class Cz:
    def __init__(self, rnd):
        # even scales: half a tick is a whole number of ms.  The large ones make the pulsetime (a multiple of half a tick)
        # a fractional number of seconds whose product with 1000 is not exact in floating point (1.005, 2.01, 2.03, 4.06, 8.03 s)
        self.c = store.Concretiser(rnd, scales=(2, 10, 1000, 1000, 2010, 4020, 4060, 8120, 16060, 21600000))   # the last: 6 h per tick, merged events pass 24 h

    # C07 loops: every event of a run is this many microseconds longer than its grid duration (less than half a tick, so no
    # merge decision changes and a merged event is longer by exactly the same amount): durations with a sub-millisecond
    # part go through the store and through heartbeat_reduce
    eps = timedelta(0)
    iso = False
    numeric = False
    decomposed = False

    def ev(self, e, Event):
        data = {"v": e["d"]} if e["d"] != "c" else {"v": "a", "extra": [1]}      # "c" equals "a" except for one more key
        if self.decomposed and e["d"] == "b":
            data = {"v": "cafe\u0301 \u2126 b"}          # text that is not in composed normal form: stored and compared as written
        if self.numeric and e["d"] == "a":
            # equal data written with different number types (1 == 1.0 == True): equality of data is equality of VALUES
            self._k = getattr(self, "_k", 0) + 1
            data = {"v": [1, 1.0, True][self._k % 3]}
        if e["d"] in ("m", "n"):          # "m" and "n": same size, same values, they differ only in which key carries None
            data = {"v": "a", ("title" if e["d"] == "m" else "url"): None}
        ts = self.c.dt(e["ts"])          # an aware datetime at a random UTC offset ...
        if self.iso and (e["ts"] + len(data)) % 2 == 0:
            ts = ts.isoformat()          # ... or the same instant as an ISO string carrying that offset
        return Event(timestamp=ts, duration=self.c.td(e["dur"]) + self.eps, data=data)

    def pul(self, p2):          # pulsetime in half-ticks -> seconds
        return p2 * self.c.scale / 2000.0

    def proj(self, e, with_id=False):
        half = MS * self.c.scale / 2
        q1, r1 = divmod(e.timestamp - self.c.base, half)
        q2, r2 = divmod(e.duration - self.eps, half)
        z = timedelta(0)
        out = {"ts": q1 if r1 == z else -99999, "dur": q2 if r2 == z else -99999, "d": "c" if "extra" in e.data else ("m" if "title" in e.data else ("n" if "url" in e.data else ("a" if not isinstance(e.data.get("v"), str) and e.data.get("v") == 1 else ("b" if e.data.get("v") == "cafe\u0301 \u2126 b" else str(e.data.get("v", "?"))[:12].encode("ascii", "replace").decode()))))}
        if with_id:
            out["id"] = e.id if isinstance(e.id, int) else -2
        return out


def h2(e):
    """grid event (ticks) -> judge units (half-ticks)"""
    return {"ts": 2 * e["ts"], "dur": 2 * e["dur"], "d": e["d"]}


def merge_cases(quick):
    ts = [0, 1, 2, 3]
    du = [-1, 0, 1, 2]
    for t1, d1, t2, d2 in itertools.product(ts, du, ts, du):
        for da, db in (("a", "a"), ("a", "b"), ("a", "c"), ("c", "a"), ("m", "n"), ("m", "m")):
            for p2 in (0, 1, 2, 4):
                yield {"ts": t1, "dur": d1, "d": da}, {"ts": t2, "dur": d2, "d": db}, p2


def list_cases(rnd, n, maxlen=4):
    for _ in range(n):
        k = rnd.randint(0, maxlen)
        yield [{"ts": rnd.randrange(0, 5), "dur": rnd.choice([-1, 0, 0, 1, 2, 3]), "d": rnd.choice("aabcmn")} for _ in range(k)], rnd.choice([0, 1, 2, 4])


def all_lists(maxlen):
    evs = [{"ts": t, "dur": d, "d": x} for t in (0, 1, 2) for d in (0, 1) for x in "ab"]
    for k in range(maxlen + 1):
        for combo in itertools.product(evs, repeat=k):
            yield list(combo)


def run_pure(args):
    """C08 worker: list of cases -> one trace (list of records)"""
    seed, cases = args
    from aw_core.models import Event
    from aw_transform import heartbeat_merge, heartbeat_reduce
    rnd = random.Random(seed)
    cz = Cz(rnd)
    cz.numeric = seed % 2 == 0
    tr = []
    def one_case(c):
        if c[0] == "merge":
            _, e1, e2, p2 = c
            a, b = cz.ev(e1, Event), cz.ev(e2, Event)
            res = heartbeat_merge(a, b, cz.pul(p2))
            tr.append({"op": "merge", "e1": h2(e1), "e2": h2(e2), "P": p2, "hit": res is not None,
                       "out": cz.proj(res) if res is not None else {"ts": 0, "dur": 0, "d": "-"}})
        else:
            _, lst, p2 = c
            inp = [cz.ev(e, Event) for e in lst]
            out = heartbeat_reduce(list(inp_copy(inp)), cz.pul(p2))
            again = heartbeat_reduce(copy.deepcopy(out), cz.pul(p2))
            tr.append({"op": "reduce", "inp": [h2(e) for e in lst], "P": p2, "out": [cz.proj(e) for e in out],
                       "again": [cz.proj(e) for e in again]})

    for c in cases:
        try:
            one_case(c)
        except Exception as e:      # no input of these grids makes the unchanged transforms raise
            tr.append({"op": "raised", "fn": c[0], "exc": type(e).__name__, "inp": json.dumps(c[1:], default=str)[:300]})
    return tr


def inp_copy(evs):
    return [copy.deepcopy(e) for e in evs]


# ---- C07 ------------------------------------------------------------------------------------------

def streams(maxlen, tmax=5, dmax=3):
    """all heartbeat streams: strictly increasing timestamps, non-decreasing ends, data in {a,b}"""
    out = [[]]
    frontier = [[]]
    for _ in range(maxlen):
        nxt = []
        for s in frontier:
            lo = s[-1]["ts"] + 1 if s else 0
            for t in range(lo, tmax + 1):
                for d in range(0, dmax + 1):
                    if s and t + d < s[-1]["ts"] + s[-1]["dur"]:
                        continue
                    for x in "ab":
                        nxt.append(s + [{"ts": t, "dur": d, "d": x}])
        out += nxt
        frontier = nxt
    return out


def run_loop(ds, kind, rnd, uniq, stream, p2, decoy=None):
    from aw_core.models import Event
    from aw_transform import heartbeat_merge, heartbeat_reduce
    cz = Cz(rnd)
    cz.eps = timedelta(microseconds=rnd.choice([0, 0, 0, 4, 996, 500, 123]))
    cz.iso = rnd.random() < 0.4
    cz.numeric = rnd.random() < 0.3
    cz.decomposed = rnd.random() < 0.3
    bn, sn = "hb-%s" % uniq, "hbspect-%s" % uniq
    if rnd.random() < 0.4:
        sn = bn.swapcase() if bn.swapcase() != bn else bn.upper()      # another bucket whose id differs only in letter case
    spect = ds.create_bucket(sn, "t", "c", "h")
    # the spectator shares start and end instants with the stream
    sev = [{"ts": 0, "dur": 2, "d": "s"}, {"ts": 2, "dur": 0, "d": "s"}, {"ts": 1, "dur": 4, "d": "s"}] + \
          [dict(e, d="s") for e in stream[:2]]
    spect.insert([cz.ev(e, Event) for e in sev])
    if decoy is not None:
        # another Datastore object of the same process already has a bucket with this very id (holding something else)
        decoy.create_bucket(bn, "t", "c", "other-host").insert(cz.ev({"ts": 0, "dur": 9, "d": "s"}, Event))
    b = ds.create_bucket(bn, "t", "c", "h")
    # half of the runs: a twin bucket in the same database is fed the very same stream, interleaved heartbeat by heartbeat
    twin = ds.create_bucket(bn + "-twin", "t", "c", "h") if rnd.random() < 0.5 else None
    tr = [{"op": "start", "P": p2, "sp": [cz.proj(e, True) for e in spect.get(-1)]}]
    for h in stream:
        if twin is not None:
            tv = cz.ev(h, Event)
            tl = twin.get(1)
            tm = heartbeat_merge(tl[0], tv, cz.pul(p2)) if tl else None
            if tm is not None:
                twin.replace_last(tm)
            else:
                twin.insert(tv)
        hbv = cz.ev(h, Event)
        last = b.get(1)
        rec = {"op": "hb", "hb": h2(h), "has1": bool(last), "pre1": cz.proj(last[0], True) if last else {"id": -1, "ts": 0, "dur": 0, "d": "-"}}
        merged = heartbeat_merge(last[0], hbv, cz.pul(p2)) if last else None
        if merged is not None:
            b.replace_last(merged)
            rec["did"] = "replace"
        else:
            b.insert(hbv)
            rec["did"] = "insert"
        rec["st"] = [cz.proj(e, True) for e in b.get(-1)]
        rec["sp"] = [cz.proj(e, True) for e in spect.get(-1)]
        tr.append(rec)
    red = heartbeat_reduce([cz.ev(h, Event) for h in stream], cz.pul(p2))
    tr.append({"op": "end", "stream": [h2(h) for h in stream], "reduced": [cz.proj(e) for e in red]})
    if twin is not None:
        # the twin must hold the same reduction (recorded as a second 'end' record over its own contents)
        tr.append({"op": "twin", "stream": [h2(h) for h in stream], "st": [cz.proj(e, True) for e in twin.get(-1)]})
        ds.delete_bucket(bn + "-twin")
    ds.delete_bucket(bn)
    ds.delete_bucket(sn)
    if decoy is not None:
        decoy.delete_bucket(bn)
    return tr


def _loop_worker(args):
    kind, seed, jobs = args
    rnd = random.Random(seed)
    root = common.scratch_dir("h%d_%s_%d" % (os.getpid(), kind, seed % 100000))
    ds = store.mk_datastore(kind, root)
    decoy = store.mk_datastore("memory", root)          # a second Datastore object alive in the same process
    out = []
    try:
        for n, (key, stream, p2) in enumerate(jobs):
            try:
                trace = run_loop(ds, kind, rnd, "%s-%d" % (key, n), stream, p2, decoy if n % 3 == 0 else None)
            except Exception as e:      # the client loop never raises on the unchanged stores; the (partial) run is judged as a raise
                trace = [{"op": "raised", "fn": "loop", "exc": type(e).__name__, "inp": json.dumps(stream)[:300]}]
                store.close_datastore(kind, ds)
                ds = store.mk_datastore(kind, common.scratch_dir("h%d_%s_%d_%d" % (os.getpid(), kind, seed % 100000, n)))
            out.append({"backend": kind, "key": key, "stream": stream, "P": p2, "trace": trace})
    finally:
        store.close_datastore(kind, ds)
        shutil.rmtree(root, ignore_errors=True)
    return out


def run_loops(jobs, seed, backends=store.BACKENDS, procs=None):
    procs = procs or common.ncpu()
    per = max(1, procs // len(backends))
    tasks = []
    for bi, kind in enumerate(backends):
        for w in range(per):
            part = jobs[w::per]
            if part:
                tasks.append((kind, seed * 1000 + bi * 100 + w, part))
    res = common.pmap(_loop_worker, tasks, procs=len(tasks))
    return [r for part in res for r in part]
