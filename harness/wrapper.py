"""Binding of spec/AwDatastoreDesign.tla (the Datastore wrapper's handle cache, C05) to the code: TLC prints every edge
of the design's state graph, each edge (and random walks along edges) is replayed on the real Datastore over every
backend, the observed (bucket table, outcome) is judged by spec/AwDatastoreTrace.tla."""
import json
import os
import random
import re
import shutil

from . import common, store, tlc

common.use_repo()
EDGE_CFG = """CONSTANTS
  BucketNames = {"A", "B", "C"}
  DropHandleOnDelete = TRUE
  LookupAsksStorage = TRUE
SPECIFICATION Spec
ACTION_CONSTRAINT PrintEdge
INVARIANT CacheSound
CHECK_DEADLOCK FALSE
"""
NAMES = {"A": "wr-bucket-a", "B": "wr-bücket-b", "C": "wr bucket c"}


def edges():
    """distinct (stored, inst, op, b) of the design's complete state graph, as TLC enumerates them"""
    res = tlc.model_check("AwDatastoreEdges", EDGE_CFG, workers=1, tag="wr_edges")
    out = set()
    for m in re.finditer(r'<<"EDGE",\s*"((?:[^"\\]|\\.)*)">>', res["out"]):
        d = json.loads(json.loads('"' + m.group(1) + '"'))
        out.add((tuple(sorted(d["s"])), tuple(sorted(d["i"])), d["op"], d["b"]))
    if not out:
        raise tlc.TLCFailure("AwDatastoreEdges printed no edges")
    return sorted(out), res


class Wr:
    def __init__(self, kind, root, tag):
        self.kind, self.root, self.tag = kind, root, tag
        self.ds = store.mk_datastore(kind, root, tag)

    def obs(self):
        back = {v: k for k, v in NAMES.items()}
        return {"stored": sorted(back[b] for b in self.ds.buckets() if b in back), "inst": sorted(back[b] for b in self.ds.bucket_instances if b in back)}

    def call(self, op, b):
        name = NAMES[b]
        pre = self.obs()
        try:
            if op == "create":
                h = self.ds.create_bucket(name, "t", "c", "h")
                res = "handle" if getattr(h, "bucket_id", None) == name else "no-handle"
            elif op == "delete":
                self.ds.delete_bucket(name)
                res = "ok"
            elif op == "lookup":
                h = self.ds[name]
                res = "handle" if getattr(h, "bucket_id", None) == name else "no-handle"
            elif op == "update":
                self.ds.update_bucket(name, hostname="h2")
                res = "ok"
            elif op == "reopen":
                old = self.ds
                if self.kind == "memory":       # a second wrapper object over the same storage object
                    self.ds = store.mk_datastore("memory", self.root)
                    self.ds.storage_strategy = old.storage_strategy
                else:
                    if self.kind == "sqlite":
                        old.storage_strategy.commit()
                    store.close_datastore(self.kind, old)
                    self.ds = store.mk_datastore(self.kind, self.root, self.tag)
                res = "ok"
            else:
                raise ValueError(op)
        except KeyError:
            res = "KeyError"
        except Exception:
            res = "raise"
        rec = {"op": op, "b": b, "pre": pre, "res": res}
        rec.update(self.obs())
        return rec

    def close(self):
        store.close_datastore(self.kind, self.ds)


def _worker(args):
    kind, seed, jobs = args
    root = common.scratch_dir("w%d_%s_%d" % (os.getpid(), kind, seed))
    out = []
    try:
        for n, (mode, payload) in enumerate(jobs):
            w = Wr(kind, root, "db%d" % n)
            tr = []
            try:
                if mode == "edge":
                    s, i, op, b = payload
                    # reach the source state: create every stored bucket, start a new wrapper, look up the cached ones
                    for x in s:
                        tr.append(w.call("create", x))
                    tr.append(w.call("reopen", "A"))
                    for x in i:
                        tr.append(w.call("lookup", x))
                    if op == "create" and b in s:
                        pass          # duplicate creation is outside the property (the statement says nothing about creating an existing id)
                    else:
                        tr.append(w.call(op, b))
                    for x in "ABC":     # what the post-state means to a caller
                        tr.append(w.call("lookup", x))
                else:
                    for op, b in payload:
                        if op == "create" and b in w.obs()["stored"]:
                            continue          # duplicate creation: outside the property
                        tr.append(w.call(op, b))
            finally:
                w.close()
            out.append({"backend": kind, "mode": mode, "payload": payload, "trace": tr})
    finally:
        shutil.rmtree(root, ignore_errors=True)
    return out


def run_jobs(jobs, seed, backends=store.BACKENDS):
    tasks = []
    per = max(1, common.ncpu() // len(backends))
    for bi, kind in enumerate(backends):
        for wk in range(per):
            part = jobs[wk::per]
            if part:
                tasks.append((kind, seed * 100 + bi * 10 + wk, part))
    res = common.pmap(_worker, tasks, procs=len(tasks))
    return [r for part in res for r in part]


def random_walks(rnd, n, length=14):
    out = []
    for _ in range(n):
        out.append(("walk", [(rnd.choice(["create", "create", "delete", "delete", "lookup", "lookup", "update", "reopen"]), rnd.choice("ABC")) for _ in range(length)]))
    return out
