"""Pass 2 for C01: insert / read / caller-mutation histories on one bucket; values are random concrete
(instant, duration at us granularity, nested JSON) triples interned to abstract names by exactly the
equalities the property states (instant to the ms, duration to the us, JSON equality of data)."""
import copy
import json
import os
import random
import shutil
from datetime import datetime, timedelta, timezone

from . import common, store

common.use_repo()
E0 = datetime(1970, 1, 1, tzinfo=timezone.utc)
US = timedelta(microseconds=1)
BOUNDARY = [datetime(1970, 1, 1, 0, 0, 0, 1000, tzinfo=timezone.utc), datetime(2038, 1, 19, 3, 14, 7, 999000, tzinfo=timezone.utc),
            datetime(2099, 12, 31, 23, 59, 59, 999000, tzinfo=timezone.utc), datetime(2001, 9, 9, 1, 46, 39, 999000, tzinfo=timezone.utc),
            datetime(2016, 12, 31, 23, 59, 59, 0, tzinfo=timezone.utc), datetime(2033, 5, 18, 3, 33, 20, 1000, tzinfo=timezone.utc)]


def rand_data(rnd):
    words = ["alpha", "ünï ☃", "qu\"ote'", "back\\slash", "", "日本語", "a\nb"]
    d = {"l": [rnd.choice(words), rnd.randrange(-5, 5), [None, True]], "n": {"k": rnd.choice(words), "f": rnd.choice([0.5, 1e-7, 3.14159, -2.5e10, 0.1])},
         rnd.choice(["title", "ключ", "k y"]): rnd.choice(words)}
    if rnd.random() < 0.3:
        d["null"] = None
    return d


def rand_triple(rnd):
    if rnd.random() < 0.25:
        ts = rnd.choice(BOUNDARY)
    else:
        ts = E0 + timedelta(microseconds=rnd.randrange(0, int(4.1e15)))
    ts = ts.astimezone(timezone(timedelta(minutes=rnd.randrange(-840, 841))))
    r = rnd.random()
    if r < 0.2:
        dur = timedelta(0)
    elif r < 0.5:
        dur = timedelta(microseconds=rnd.randrange(0, 5_000_000))
    else:
        dur = timedelta(microseconds=rnd.randrange(0, 30 * 86400 * 1_000_000))
    return ts, dur, rand_data(rnd)


def canon_event(e):
    ms = (e.timestamp - E0) // timedelta(milliseconds=1)
    return (ms, e.duration // US, e.duration % US == timedelta(0), json.dumps(e.data, sort_keys=True))


def canon_meta(m):
    return json.dumps({k: m.get(k) for k in ("id", "type", "client", "hostname", "name", "data")}, sort_keys=True)


class Run:
    def __init__(self, ds, kind, rnd, uniq):
        from aw_core.models import Event
        self.Event, self.ds, self.kind, self.rnd = Event, ds, kind, rnd
        self.vals = {n: rand_triple(rnd) for n in ("v1", "v2", "v3", "v4")}
        if rnd.random() < 0.3:
            # v1 and v2 carry data that is EQUAL for Python (1 == True == 1.0) but not the same JSON document: what comes back
            # is the document that went in
            self.vals["v1"] = self.vals["v1"][:2] + ({"afk": 1, "load": 0, "t": "x"},)
            self.vals["v2"] = self.vals["v2"][:2] + ({"afk": True, "load": 0.0, "t": "x"},)
        self.names = {}
        for n, (ts, dur, data) in self.vals.items():
            self.names[canon_event(Event(timestamp=ts, duration=dur, data=copy.deepcopy(data)))] = n
        self.metas = {}
        self.unknown = 0
        self.bid = "own-%s" % uniq
        self.mdata = {"k": [1, {"z": "ü"}], "s": "x"}
        self.bucket = ds.create_bucket(self.bid, "t", "c", "h", name="nm", data=copy.deepcopy(self.mdata))
        self.meta0 = canon_meta(self.bucket.metadata())
        self.refs = {}       # model ref -> list of python objects
        self.ids = {}        # model id -> implementation id

    def vname(self, e):
        k = canon_event(e)
        if k not in self.names:
            self.unknown += 1
            self.names[k] = "UNKNOWN%d" % self.unknown
        return self.names[k]

    def mname(self, m):
        c = canon_meta(m)
        if c == self.meta0:
            return "m0"
        if c not in self.metas:
            self.metas[c] = "mUNKNOWN%d" % (len(self.metas) + 1)
        return self.metas[c]

    def mk(self, v):
        ts, dur, data = self.vals[v]
        return self.Event(timestamp=ts, duration=dur, data=copy.deepcopy(data))

    def st(self):
        evs = self.bucket.get(-1)
        listing = [{"id": e.id if isinstance(e.id, int) else -2, "v": self.vname(e)} for e in evs]
        probes = sorted({x["id"] for x in listing} | set(self.ids.values()) | {424242})
        byid = []
        for i in probes:
            r = self.bucket.get_by_id(i)
            byid.append({"id": i, "v": "None" if r is None else self.vname(r)})
        return {"listing": listing, "byid": byid, "count": self.bucket.get_eventcount(), "meta": self.mname(self.bucket.metadata())}

    def mutate(self, obj, depth):
        rnd = self.rnd
        if isinstance(obj, self.Event):
            if depth == "field":
                w = rnd.choice(["data", "timestamp", "duration"])
                if w == "data":
                    obj.data = {"changed": 1}
                elif w == "timestamp":
                    obj.timestamp = obj.timestamp + timedelta(seconds=7)
                else:
                    obj.duration = obj.duration + timedelta(seconds=3)
            else:
                d = obj.data
                w = rnd.choice(["list", "dict", "key"])
                if w == "list" and isinstance(d.get("l"), list):
                    d["l"].append("mutated")
                elif w == "dict" and isinstance(d.get("n"), dict):
                    d["n"]["k"] = "mutated"
                else:
                    d["zz-added"] = [1]
        elif isinstance(obj, dict):
            if depth == "field":
                obj[rnd.choice(["name", "hostname", "type"])] = "mutated"
            else:
                d = obj.get("data")
                if isinstance(d, dict):
                    if isinstance(d.get("k"), list) and rnd.random() < 0.6:
                        d["k"].append("mutated")
                    else:
                        d["zz-added"] = 1

    def step(self, op):
        o = op["op"]
        rec = {"op": o}
        out = "ok"
        if o == "insert":
            ev = self.mk(op["v"])
            rec.update(v=op["v"], id=-2)
            try:
                res = self.bucket.insert(ev)
                rec["id"] = res.id if isinstance(res.id, int) else -2
                self.ids[op["id"]] = rec["id"]
                self.refs[op["ref"]] = [ev, res]
            except Exception as e:
                out = type(e).__name__
        elif o == "insert_many":
            evs = [self.mk(op["v"]), self.mk(op["w"])]
            if op["v"] == op["w"] and self.rnd.random() < 0.7:
                evs = [evs[0], evs[0]]          # the same object twice in one bulk list (n * [event]) is ordinary use
            rec["vs"] = [op["v"], op["w"]]
            before = {e.id for e in self.bucket.get(-1)}
            try:
                self.bucket.insert(evs)
            except Exception as e:
                out = type(e).__name__
            self.refs[op["ref"]] = [evs[0]]
            self.refs[op["ref2"]] = [evs[1]]
            new = [e for e in self.bucket.get(-1) if e.id not in before]
            for mid, v in ((op["id"], op["v"]), (op["id2"], op["w"])):
                for e in new:
                    if self.vname(e) == v and e.id not in self.ids.values():
                        self.ids[mid] = e.id
                        break
        elif o == "read":
            how = op["how"]
            rec.update(how=how, id=-1, got="None")
            if how == "metadata":
                # the bucket's description is handed out by the bucket handle or by the datastore's listing
                m = self.bucket.metadata() if self.rnd.random() < 0.5 else self.ds.buckets()[self.bid]
                rec["got"] = self.mname(m)
                self.refs[op["ref"]] = [m]
            else:
                i = self.ids.get(op["id"])
                if i is None:
                    return None
                rec["id"] = i
                if how == "lookup":
                    e = self.bucket.get_by_id(i)
                else:
                    # the event is handed out by a listing: the full one, or one limited to the newest 1 / 2 / 5 events
                    e = next((x for x in self.bucket.get(self.rnd.choice([-1, 1, 1, 2, 5])) if x.id == i), None)
                    if e is None:
                        e = next((x for x in self.bucket.get(-1) if x.id == i), None)
                if e is None:
                    return None
                rec["got"] = self.vname(e)
                self.refs[op["ref"]] = [e]
        elif o == "recreate":
            try:
                self.ds.delete_bucket(self.bid)
                self.bucket = self.ds.create_bucket(self.bid, "t", "c", "h", name="nm", data=copy.deepcopy(self.mdata))
            except Exception as e:
                out = type(e).__name__
            self.ids = {}
        elif o == "mutate":
            objs = self.refs.get(op["ref"])
            if not objs:
                return None
            depth = self.rnd.choice(["field", "nested", "nested"])
            rec.update(what=op["what"], depth=depth)
            for obj in objs:
                self.mutate(obj, depth)
        rec["out"] = out
        rec["st"] = self.st()
        return rec

    def run(self, ops):
        tr = [{"op": "start", "out": "ok", "st": self.st()}]
        for op in ops:
            r = self.step(op)
            if r is not None:
                tr.append(r)
        self.ds.delete_bucket(self.bid)
        return tr


def _worker(args):
    kind, seed, jobs, konc = args
    rnd = random.Random(seed)
    root = common.scratch_dir("o%d_%s_%d" % (os.getpid(), kind, seed % 100000))
    ds = store.mk_datastore(kind, root)
    out = []
    try:
        for n, (key, ops) in enumerate(jobs):
            for c in range(konc):
                r = Run(ds, kind, rnd, "%s-%d-%d" % (key, n, c))
                tr = r.run(ops)
                out.append({"backend": kind, "key": key, "ops": ops, "trace": tr,
                            "values": {n_: [v[0].isoformat(), v[1].total_seconds(), json.dumps(v[2], ensure_ascii=True)] for n_, v in r.vals.items()}})
    finally:
        store.close_datastore(kind, ds)
        shutil.rmtree(root, ignore_errors=True)
    return out


def run_batch(behaviours, seed, konc, backends=store.BACKENDS, procs=None):
    procs = procs or common.ncpu()
    per = max(1, procs // len(backends))
    tasks = []
    for bi, kind in enumerate(backends):
        for w in range(per):
            part = behaviours[w::per]
            if part:
                tasks.append((kind, seed * 1000 + bi * 100 + w, part, konc))
    res = common.pmap(_worker, tasks, procs=len(tasks))
    return [r for part in res for r in part]
