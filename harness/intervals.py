"""Pass 2 for C09 / C10 / C15: enumerate small interval layouts, call the real transforms, record
(inputs, output, inputs after the call) for spec/AwIntervalsTrace.tla."""
import copy
import json
import itertools
import random
from datetime import timedelta

from . import common, store

common.use_repo()
MS = timedelta(milliseconds=1)


def strict_lists(tmax, dmax, n, labels=("x", "y")):
    """time-sorted lists of <= n events, each ending before or exactly when the next starts"""
    out = [[]]
    frontier = [[]]
    for _ in range(n):
        nxt = []
        for q in frontier:
            lo = (q[-1][0] + q[-1][1]) if q else 0
            for t in range(lo, tmax + 1):
                for u in range(0, dmax + 1):
                    if t + u > tmax + 1:
                        continue
                    for x in labels:
                        nxt.append(q + [(t, u, x)])
        out += nxt
        frontier = nxt
    return out


def any_lists(tmax, dmax, n):
    evs = [(t, u, "x") for t in range(0, tmax + 1) for u in range(0, dmax + 1)]
    out = []
    for k in range(n + 1):
        out += [list(c) for c in itertools.product(evs, repeat=k)]
    return out


class Cx:
    def __init__(self, rnd):
        self.c = store.Concretiser(rnd, scales=(1, 10, 1000, 1000, 43200000, 86400000))      # the last two: 12 h and 24 h per tick (pieces of whole days)

    def mk(self, lst, Event, id0, uniq=None, dupids=False, twins=False):
        """(t, u, label) -> Event with id and data; uniq: make the data label unique per event; dupids: ids repeat (events of
        several buckets in one list); twins: the two labels become data that differ only in a tuple versus a list"""
        out = []
        for k, (t, u, x) in enumerate(lst):
            lab = x if uniq is None else "%s%d" % (uniq, k + 1)
            data = {"l": lab, "n": [1, {"z": None}]}
            if twins and uniq is None and lab in ("x", "y"):
                data = {"l": "twin", "n": [1, 2] if lab == "x" else (1, 2)}
            out.append(Event(id=id0 + (k // 2 if dupids else k), timestamp=self.c.dt(t), duration=self.c.td(u), data=data))
        return out

    def proj(self, evs):
        return [{"id": e.id if isinstance(e.id, int) else -2, "ts": self.c.tick(e.timestamp), "dur": self.c.dur(e.duration),
                 "d": self.lab(e.data)} for e in evs]

    @staticmethod
    def lab(data):
        if data.get("l") == "twin":
            return "x" if isinstance(data.get("n"), list) else "y"
        return str(data["l"]) if "l" in data else ("empty" if data == {} else "UNKNOWN")

    def sec(self, p):
        return p * self.c.scale / 1000.0


def run_cases(args):
    seed, cases = args
    from aw_core.models import Event
    from aw_transform import filter_period_intersect, flood, period_union, union_no_overlap
    rnd = random.Random(seed)
    cx = Cx(rnd)
    tr = []
    def warm(fn, a, b=None):
        """the same Event objects have been through an earlier call while they described OTHER intervals (each list
        shifted as a whole), and were then given their present instants through the public setters"""
        if rnd.random() >= 0.3:
            return
        MS = timedelta(milliseconds=cx.c.scale)
        da, db = rnd.choice([1, 2, 5, -3]) * MS, rnd.choice([0, 3, -1, 7]) * MS
        saved = [(e, e.timestamp, e.duration) for e in a + (b or [])]
        for e in a:
            e.timestamp = e.timestamp + da
        for e in (b or []):
            e.timestamp = e.timestamp + db
        try:
            fn()
        except Exception:
            pass
        for e, t, d in saved:
            e.timestamp = t
            e.duration = d

    def one_case(c):
        op = c[0]
        if op == "intersect":
            a, b = cx.mk(c[1], Event, 0), cx.mk(c[2], Event, 101)
            if c[3]:
                rnd.shuffle(a)
                rnd.shuffle(b)
            warm(lambda: filter_period_intersect(a, b), a, b)
            pa, pb = cx.proj(a), cx.proj(b)
            out = filter_period_intersect(a, b)
            tr.append({"op": op, "A": pa, "B": pb, "out": cx.proj(out), "A2": cx.proj(a), "B2": cx.proj(b)})
        elif op == "union":
            a, b = cx.mk(c[1], Event, 0), cx.mk(c[2], Event, 101)
            warm(lambda: period_union(a, b), a, b)
            pa, pb = cx.proj(a), cx.proj(b)
            out = period_union(a, b)
            tr.append({"op": op, "A": pa, "B": pb, "out": cx.proj(out)})
            for e in out:                  # the caller owns the result: annotating it must not show in any later result
                e.data["$tags"] = ["annotated-by-the-caller"]
        elif op == "flood":
            a = cx.mk(c[1], Event, 0, dupids=rnd.random() < 0.3, twins=rnd.random() < 0.3)
            if c[3]:
                rnd.shuffle(a)
            warm(lambda: flood(a, cx.sec(c[2])), a)
            pa = cx.proj(a)
            out = flood(a, cx.sec(c[2]))
            tr.append({"op": op, "A": pa, "P": c[2], "out": cx.proj(out), "A2": cx.proj(a)})
        elif op == "uno":
            a, b = cx.mk(c[1], Event, 0, "a"), cx.mk(c[2], Event, 101, "b")
            warm(lambda: union_no_overlap(a, b), a, b)
            pa, pb = cx.proj(a), cx.proj(b)
            out = union_no_overlap(a, b)
            tr.append({"op": op, "A": pa, "B": pb, "out": cx.proj(out), "A2": cx.proj(a), "B2": cx.proj(b)})

    for c in cases:
        try:
            one_case(c)
        except Exception as e:      # no input of these grids makes the unchanged transforms raise
            tr.append({"op": "raised", "fn": c[0], "exc": type(e).__name__, "inp": json.dumps(c[1:], default=str)[:400]})
    return tr
