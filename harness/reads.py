"""Pass 2 for C03: buckets with small, deliberately awkward contents are read through the real
Bucket.get / Bucket.get_eventcount with windows placed on and between grid points; results are recorded
for spec/AwReadsTrace.tla.  Ticks are milliseconds relative to a per-trace base instant."""
import itertools
import os
import random
import shutil
from datetime import timedelta, timezone

from . import common, store

common.use_repo()
MS = timedelta(milliseconds=1)
US = timedelta(microseconds=1)


def contents_pool(rnd, scale):
    """event lists (start tick, length tick): overlapping, nested, adjacent, zero-length, ~24h"""
    n = rnd.choice([0, 1, 2, 2, 3, 3, 4])
    evs = []
    for i in range(n):
        s = 2 * rnd.randrange(0, 6) * scale
        ln = rnd.choice([0, 0, 2, 4, 6, 20]) * scale
        if rnd.random() < 0.12:
            ln = rnd.choice([86400000 - rnd.randrange(0, 3), 86400000 - rnd.randrange(0, 3), rnd.randrange(36000000, 86400000), 86400000])
        evs.append((s, ln))
    return evs


def grid_cases():
    """systematic part: all 1- and 2-event contents on a tiny grid"""
    pos = [0, 4, 8]
    lens = [0, 2, 8]
    singles = [[(p, u)] for p in pos for u in lens]
    pairs = [[a[0], b[0]] for a, b in itertools.combinations_with_replacement(singles, 2)]
    return [[]] + singles + pairs


def windows_for(rnd, scale, exhaustive, evs=()):
    if exhaustive:
        edges = [-5, 0, 1, 4, 7, 8, 13]
        for hs in (True, False):
            for he in (True, False):
                for s in (edges if hs else [0]):
                    for e in (edges if he else [0]):
                        if hs and he and s > e:
                            continue
                        yield hs, s * scale, he, e * scale
    else:
        for _ in range(12):
            hs = rnd.random() < 0.8
            he = rnd.random() < 0.8
            s = rnd.randrange(-3, 14) * scale
            if evs and rnd.random() < 0.35:
                # an edge placed relative to the start or the end of a stored event (matters for long events)
                es, el = rnd.choice(evs)
                s = rnd.choice([es, es + el]) + rnd.choice([-3, -2, -1, 0, 1, 2, 3]) * scale
            e = s + rnd.choice([0, 0, 1, 2, 3, 8, 30]) * scale
            yield hs, s, he, e


def run_case(ds, kind, rnd, uniq, evs_spec, exhaustive, limits):
    from aw_core.models import Event
    cz = store.Concretiser(rnd, scales=(1,))
    base = cz.base
    b = ds.create_bucket("c03-%s" % uniq, "t", "c", "h")

    def tick(dt):
        q, r = divmod(dt - base, MS)
        return q if r == timedelta(0) and abs(q) < 2**30 else -99999

    def durt(td):
        q, r = divmod(td, MS)
        return q if r == timedelta(0) and abs(q) < 2**30 else -99999

    only = exhaustive if isinstance(exhaustive, dict) else None       # replay: exactly the recorded window and limit
    if only:
        exhaustive = True
    scale = rnd.choice([1, 10, 1000]) if not exhaustive else 1
    if not exhaustive:
        evs_spec = contents_pool(rnd, scale)
    evl = [Event(timestamp=cz.dt(0) + s * MS, duration=ln * MS, data={"i": i}) for i, (s, ln) in enumerate(evs_spec)]
    if evl:
        moved = set()
        if rnd.random() < 0.35:
            # some events arrive at their final instants by REPLACEMENT: they are first inserted somewhere else on the time
            # axis (before or after their neighbours) and then rewritten by id, so the bucket's history is not insertion-ordered
            moved = set(rnd.sample(range(len(evl)), rnd.randint(1, len(evl))))
        first = [Event(timestamp=e.timestamp + rnd.choice([-7, -3, 2, 5, 11]) * scale * MS, duration=e.duration, data=dict(e.data)) if i in moved else e
                 for i, e in enumerate(evl)]
        if rnd.random() < 0.5 and not moved:
            b.insert(first)
        else:
            ids = [b.insert(e).id for e in first]
            order = list(moved)
            rnd.shuffle(order)
            for i in order:
                b.replace(ids[i], evl[i])
    stored = b.get(-1)
    tr = [{"op": "load", "evs": [{"id": e.id, "ts": tick(e.timestamp), "dur": durt(e.duration), "d": "d%d" % e.data["i"]} for e in stored]}]
    wins = [(only["w"]["hs"], only["w"]["s"], only["w"]["he"], only["w"]["e"])] if only else windows_for(rnd, scale, exhaustive, evs_spec)
    if only:
        limits = [only["lim"]]
    for hs, ws_t, he, we_t in wins:
        jit1, jit2 = rnd.randrange(0, 1000), rnd.randrange(0, 1000)
        if only and only["w"].get("jit"):
            jit1, jit2 = only["w"]["jit"]
            we_t = only["w"].get("e_raw", we_t)
        o1, o2 = rnd.randrange(-840, 841), rnd.randrange(-840, 841)
        if only and only["w"].get("tzo"):
            o1, o2 = only["w"]["tzo"]
        ws = (base + ws_t * MS + jit1 * US).astimezone(timezone(timedelta(minutes=o1))) if hs else None
        we = (base + we_t * MS + jit2 * US).astimezone(timezone(timedelta(minutes=o2))) if he else None
        if hs and he and ws > we:
            we = ws
        w = {"hs": hs, "s": ws_t if hs else 0, "he": he, "e": ((we - base) // MS) if he else 0, "jit": [jit1, jit2], "e_raw": we_t, "tzo": [o1, o2]}
        lims = limits if exhaustive else [rnd.choice(limits)]
        for lim in lims:
            try:
                res = b.get(lim, ws, we)
            except Exception as e:       # a read of an existing bucket never raises on the unchanged code
                tr.append({"op": "raised", "fn": "get", "lim": lim, "w": w, "exc": type(e).__name__})
                continue
            rr = []
            for e in res:
                rr.append({"id": e.id if isinstance(e.id, int) else -2, "ts": tick(e.timestamp), "dur": durt(e.duration),
                           "d": "d%s" % e.data.get("i", "?")})
            tr.append({"op": "get", "lim": lim, "w": w, "res": rr})
        if exhaustive or rnd.random() < 0.4:
            try:
                tr.append({"op": "count", "w": w, "n": b.get_eventcount(ws, we)})
            except Exception as e:
                tr.append({"op": "raised", "fn": "count", "lim": 0, "w": w, "exc": type(e).__name__})
    ds.delete_bucket("c03-%s" % uniq)
    return {"backend": kind, "base": base.isoformat(), "contents": evs_spec, "trace": tr}


def _worker(args):
    kind, seed, jobs = args
    rnd = random.Random(seed)
    root = common.scratch_dir("r%d_%s_%d" % (os.getpid(), kind, seed % 100000))
    ds = store.mk_datastore(kind, root)
    out = []
    try:
        for n, (key, spec, exhaustive, limits) in enumerate(jobs):
            rec = run_case(ds, kind, rnd, "%s-%d" % (key, n), spec, exhaustive, limits)
            rec["key"] = key
            out.append(rec)
    finally:
        store.close_datastore(kind, ds)
        shutil.rmtree(root, ignore_errors=True)
    return out


def run_batch(jobs, seed, backends=store.BACKENDS, procs=None):
    procs = procs or common.ncpu()
    per = max(1, procs // len(backends))
    tasks = []
    for bi, kind in enumerate(backends):
        for w in range(per):
            part = jobs[w::per]
            if part:
                tasks.append((kind, seed * 1000 + bi * 100 + w, part))
    res = common.pmap(_worker, tasks, procs=len(tasks))
    return [r for part in res for r in part]
