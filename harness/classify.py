"""Pass 2 for C19: call the real categorize / tag / split_url_events / simplify_string and record I/O in
the abstract vocabulary of spec/AwClassify.tla (strings = token sets, regex = one literal token)."""
import copy
import json
import random

from . import common, store

common.use_repo()
WORDS = {"t1": ("alpha", "ALPHA"), "t2": ("bravo", "BRAVO"), "t3": ("ünïx", "ÜNÏX"), "t4": ("delta", "DELTA"),
         "t5": ("q" * 1100, "Q" * 1100),
         # case pairs that only the regex engine's case-insensitive matching relates (str.lower() / str.upper() do not map one form
         # onto the other): a medial sigma against the capital, the long s against the capital S
         "t6": ("οδοσ", "ΟΔΟΣ"), "t7": ("paradiſe", "PARADISE")}       # a token longer than a thousand characters: what follows it lies deep inside the value
URLS = {"url1": "https://www.example.com/some/path;p?x=1#frag", "url2": "http://sub.example.org:8080/", "url3": "not a url"}
TITLES = {"ti1": "(2) alpha zz", "ti2": "● bravo - editor", "ti3": "Game - FPS: 59.2 - alpha", "ti4": "* plain (3)"}


def conc_value(v):
    if v["k"] == "str":
        if "lit" in v:
            return dict(URLS, **TITLES)[v["lit"]]
        return " ".join(WORDS[w["t"]][0 if w["c"] == "l" else 1] for w in v["toks"])
    if v["k"] == "int":
        return 7
    if v["k"] == "list":
        return ["alpha", "bravo"]          # a list containing matching strings is still not a string value
    return None


def conc_rule(r):
    d = {}
    sp = r["rx"].get("sp", "")
    if sp == "only":
        d["regex"] = " "
    elif r["rx"]["t"] == "":
        if r.get("rxmode", "empty") == "empty":
            d["regex"] = ""
    else:
        d["regex"] = WORDS[r["rx"]["t"]][0 if r["rx"]["c"] == "l" else 1]
        if r["rx"].get("t2"):
            d["regex"] += r"\s+" + WORDS[r["rx"]["t2"]][0 if r["rx"]["c"] == "l" else 1]
        elif r["rx"].get("opt"):
            d["regex"] = r.get("optform", "(%s)?") % d["regex"]
        elif sp == "trail":
            d["regex"] += " "
        elif sp == "lead":
            d["regex"] = " " + d["regex"]
    if r["ic"] or r.get("ic_explicit"):
        d["ignore_case"] = r["ic"]
    if r["hs"]:
        d["select_keys"] = list(r["sk"])
    return d


class Cc:
    def __init__(self, rnd):
        self.c = store.Concretiser(rnd, scales=(1, 1000))
        self.back = {}

    def mk(self, lst, Event):
        out = []
        for e in lst:
            data = {}
            for k, v in e["data"].items():
                cv = conc_value(v)
                self.back[json.dumps(cv, sort_keys=True)] = v
                data[k] = cv
            out.append(Event(timestamp=self.c.dt(e["ts"]), duration=self.c.td(e["dur"]), data=data))
        return out

    def pval(self, cv):
        v = self.back.get(json.dumps(cv, sort_keys=True, default=str))
        if v is None:
            return {"k": "other"}
        v = dict(v)
        if v["k"] == "str" and "lit" in v:
            return {"k": "str", "toks": [{"t": v["lit"], "c": "l"}]}
        return v

    def pev(self, e, skip=()):
        data = {"_": {"k": "null"}}
        for k, cv in e.data.items():
            if k not in skip:
                data[str(k)] = self.pval(cv)
        return {"ts": self.c.tick(e.timestamp), "dur": self.c.dur(e.duration), "data": data}


def abs_rule(r):
    rx = {"t": r["rx"]["t"], "c": r["rx"]["c"], "t2": r["rx"].get("t2", ""), "opt": bool(r["rx"].get("opt")) and not r["rx"].get("t2") and r["rx"]["t"] != "", "sp": r["rx"].get("sp", "")}
    return {"rx": rx, "ic": r["ic"], "hs": r["hs"] and bool(r["sk"]), "sk": list(r["sk"])}


def rand_value(rnd):
    r = rnd.random()
    if r < 0.7:
        n = rnd.choice([1, 1, 2, 3, 1, 1, 2, 0])         # 0: the empty string
        toks = [{"t": rnd.choice(["t1", "t2", "t3", "t4", "t1", "t2", "t6", "t7"]), "c": rnd.choice("lu")} for _ in range(n)]
        if toks and rnd.random() < 0.08:
            toks.insert(0, {"t": "t5", "c": "l"})          # a very long value: the other tokens start beyond character 1100
        return {"k": "str", "toks": toks}
    return {"k": rnd.choice(["int", "null", "list"])}


def rand_events(rnd, n):
    out = []
    for _ in range(n):
        data = {}
        for k in ("k1", "k2", "k3", "$domain"):          # "$..." keys are ordinary keys (earlier annotations such as split_url_events' output)
            if rnd.random() < (0.6 if k[0] != "$" else 0.25):
                data[k] = rand_value(rnd)
        out.append({"ts": rnd.randrange(0, 5), "dur": rnd.choice([0, 1, 3]), "data": data})
    if out and rnd.random() < 0.35:
        # the same values under other keys, in the same call (what matters is WHICH key holds a value)
        e = copy.deepcopy(rnd.choice(out))
        ks = sorted(e["data"])
        if ks:
            vals = [e["data"][k] for k in ks]
            newks = rnd.sample(["k1", "k2", "k3", "k4", "$domain"], len(ks))
            e["data"] = dict(zip(newks, vals))
            out.insert(rnd.randrange(len(out) + 1), e)
    return out


def rand_rule(rnd):
    t = rnd.choice(["t1", "t2", "t3", "t4", "t1", "", "t6", "t7"])
    sk = rnd.choice([[], [], ["k1"], ["k2"], ["k9", "k1"], ["k3", "k2"]])
    t2 = rnd.choice(["t1", "t2", "t3", "t4"]) if t and rnd.random() < 0.25 else ""
    opt = bool(t) and not t2 and rnd.random() < 0.12
    sp = ""
    if not t2 and not opt and rnd.random() < 0.15:
        sp = rnd.choice(["trail", "lead"]) if t else "only"
    return {"optform": rnd.choice(["(%s)?", "(?:%s)*", "^(%s)?", "%s|$"]), "rx": {"t": t, "c": rnd.choice("lu") if t else "l", "t2": t2, "opt": opt, "sp": sp}, "ic": rnd.random() < 0.4, "hs": bool(sk) or rnd.random() < 0.2, "sk": sk,
            "rxmode": rnd.choice(["empty", "missing"]), "ic_explicit": rnd.random() < 0.5}


CATS = [["c1"], ["c2"], ["c1", "c3"], ["c2", "c4"], ["c1", "c3", "c5"], ["Uncategorized"]]


def run_cases(args):
    seed, cases = args
    from aw_core.models import Event
    from aw_transform import Rule, categorize, simplify_string, split_url_events, tag
    rnd = random.Random(seed)
    cc = Cc(rnd)
    tr = []
    def warm(fn, evs, classes):
        """the same Rule objects (and events with the same ids and instants) were used in an earlier call on OTHER data"""
        if rnd.random() >= 0.3 or not evs:
            return
        others = copy.deepcopy(evs)
        pool = [v for e in others for v in e.data.values()] or [None]
        for e in others:
            e.data = {k: copy.deepcopy(rnd.choice(pool)) for k in e.data}
        try:
            fn(others, classes)
        except Exception:
            pass

    shared = {}

    def rule_dict(r):
        """a rule description is written once and used wherever it occurs: equal abstract rules of one case share ONE dict
        object (as the query interpreter hands the same dict to every call that names it)"""
        k = json.dumps(r, sort_keys=True)
        if k not in shared:
            shared[k] = conc_rule(r)
        return shared[k]

    def one_case(c):
        op = c[0]
        shared.clear()
        inp = cc.mk(c[1], Event)
        pin = [cc.pev(e) for e in inp]
        if op == "categorize":
            classes = [(list(cl["cls"]), Rule(rule_dict(cl["rule"]))) for cl in c[2]]
            warm(categorize, inp, classes)
            out = categorize(inp, classes)
            po = []
            for e in out:
                p = cc.pev(e, skip=("$category",))
                cat = e.data.get("$category")
                p["cat"] = [str(x) for x in cat] if isinstance(cat, list) and cat else ["<not-a-category>"]
                po.append(p)
            tr.append({"op": op, "inp": pin, "classes": [{"cls": list(cl["cls"]), "rule": abs_rule(cl["rule"])} for cl in c[2]], "out": po})
        elif op == "tag":
            classes = [(cl["cls"], Rule(rule_dict(cl["rule"]))) for cl in c[2]]
            warm(tag, inp, classes)
            out = tag(inp, classes)
            po = []
            for e in out:
                p = cc.pev(e, skip=("$tags",))
                tg = e.data.get("$tags")
                p["tags"] = [str(x) for x in tg] if isinstance(tg, list) else ["<not-a-list>"]
                po.append(p)
            tr.append({"op": op, "inp": pin, "classes": [{"cls": cl["cls"], "rule": abs_rule(cl["rule"])} for cl in c[2]], "out": po})
        elif op == "split_url":
            out = split_url_events(inp)
            added = ["$protocol", "$domain", "$path", "$params", "$options", "$identifier"]
            tr.append({"op": "frame", "fn": op, "inp": pin, "out": [cc.pev(e) for e in out], "added": added})
        elif op == "simplify":
            out = simplify_string(inp, key=c[2])
            tr.append({"op": "frame", "fn": op, "inp": pin, "out": [cc.pev(e) for e in out], "added": [c[2]]})

    for c in cases:
        try:
            one_case(c)
        except Exception as e:      # no input of these grids makes the unchanged transforms raise
            tr.append({"op": "raised", "fn": c[0], "exc": type(e).__name__, "inp": json.dumps(c[1:], default=str)[:400]})
    return tr
