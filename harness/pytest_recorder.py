"""pytest plugin (lives in /verif, not in the repository): records the executions of the repository's own
datastore tests as traces for spec/AwStoreTrace.tla, so that they are judged on the FULL observable state
after every call instead of by their own assertions.

Enabled only when AW_CORE_VERIF=1 (the guard variable); run as
    AW_CORE_VERIF=1 AW_CORE_VERIF_OUT=<file> PYTHONPATH=/verif:<repo> pytest -p harness.pytest_recorder <repo>/tests/test_datastore.py
It wraps the public methods of Datastore / Bucket from the outside (no change to the library's sources)."""
import json
import os
from datetime import timedelta, timezone

ENABLED = os.environ.get("AW_CORE_VERIF") == "1"
RECS = {}
MS = timedelta(milliseconds=1)
_depth = [0]


def ascii_name(s):
    if s is None:
        return "None"
    return "s:" + "".join(c if c.isalnum() and ord(c) < 128 else "_" for c in str(s))[:40]


class Rec:
    def __init__(self, ds):
        self.ds = ds
        self.letters = {}          # real bucket id -> "A" / "B" / "C"
        self.base = None
        self.datas = {}
        self.metas = {}
        self.trace = []
        self.dead = False          # more than three buckets or a projection problem: the trace is cut here
        self.seen = set()
        self.handles = {}

    def letter(self, bid, create=False):
        if bid not in self.letters:
            if not create or len(self.letters) >= 3:
                return None
            self.letters[bid] = "ABC"[len(self.letters)]
        return self.letters[bid]

    def tick(self, dt):
        if self.base is None:
            self.base = dt.astimezone(timezone.utc).replace(microsecond=0)
        q = (dt - self.base) // MS
        return q if abs(q) < 2**30 else -99999

    def dur(self, td):
        q = td // MS
        return q if abs(q) < 2**30 and td % MS == timedelta(0) else -99999

    def dname(self, data):
        k = json.dumps(data, sort_keys=True, default=str)
        if k not in self.datas:
            self.datas[k] = "x%d" % (len(self.datas) + 1)
        return self.datas[k]

    def mname(self, data):
        if not data:
            return "m0"
        k = json.dumps(data, sort_keys=True, default=str)
        if k not in self.metas:
            self.metas[k] = "mx%d" % (len(self.metas) + 1)
        return self.metas[k]

    def pev(self, e):
        return {"id": e.id if isinstance(e.id, int) else -2, "ts": self.tick(e.timestamp), "dur": self.dur(e.duration), "d": self.dname(e.data)}

    def pmeta(self, m):
        import iso8601
        try:
            created = self.tick(iso8601.parse_date(m["created"]))
        except Exception:
            created = -99999
        return {"ex": True, "type": ascii_name(m["type"]), "client": ascii_name(m["client"]), "host": ascii_name(m["hostname"]),
                "name": ascii_name(m["name"]) if m["name"] != m["id"] else "id", "data": self.mname(m["data"]), "created": created, "idok": m["id"] is not None}

    def proj(self):
        st = {}
        listing = self.ds.buckets()
        back = {v: k for k, v in self.letters.items()}
        for L in "ABC":
            rb = back.get(L)
            if rb is None:
                st[L] = {"ex": False, "lst": {"ex": False}, "hd": []}
                continue
            lst = self.pmeta(listing[rb]) if rb in listing else {"ex": False}
            try:
                bucket = self.ds[rb]
            except KeyError:
                st[L] = {"ex": False, "lst": lst, "hd": []}
                continue
            m = self.pmeta(bucket.metadata())
            evs = [self.pev(e) for e in bucket.get(-1)]
            if len(evs) > 150:
                raise OverflowError("bucket too large for the trace judge: the trace is cut here")
            probes = sorted(self.seen | {e["id"] for e in evs} | {987654})
            byid = []
            for i in probes:
                r = bucket.get_by_id(i)
                byid.append({"id": i, "hit": {"id": -1} if r is None else self.pev(r)})
            self.seen |= {e["id"] for e in evs}
            m.update(evs=evs, byid=byid, count=bucket.get_eventcount(), lst=lst, hd=[])
            st[L] = m
        return st

    def live(self, rb):
        try:
            return [e.id for e in self.ds[rb].get(-1)]
        except Exception:
            return []

    def add(self, rec):
        if self.dead:
            return
        try:
            rec["st"] = self.proj()
        except Exception as e:      # the recorder never interferes with the test
            self.dead = True
            return
        self.trace.append(rec)


def rec_of(ds):
    if id(ds) not in RECS:
        RECS[id(ds)] = Rec(ds)
    return RECS[id(ds)]


def install():
    from aw_core.models import Event
    from aw_datastore import datastore as D

    def wrap(cls, name, before, after):
        orig = getattr(cls, name)

        def w(self, *a, **kw):
            if _depth[0] > 0:
                return orig(self, *a, **kw)
            _depth[0] += 1
            ctx = None
            try:
                try:
                    ctx = before(self, *a, **kw)
                except Exception:
                    ctx = None
                out, res = "ok", None
                try:
                    res = orig(self, *a, **kw)
                    return res
                except Exception as e:
                    out = type(e).__name__
                    raise
                finally:
                    try:
                        if ctx is not None:
                            after(self, ctx, out, res)
                    except Exception:
                        pass
            finally:
                _depth[0] -= 1
        setattr(cls, name, w)

    # ---- Datastore ---------------------------------------------------------------------------------
    def b_create(ds, bucket_id, type=None, client=None, hostname=None, created=None, name=None, data=None, **kw):
        r = rec_of(ds)
        exists = bucket_id in ds.buckets()
        L = r.letter(bucket_id, create=True)
        if L is None:
            r.dead = True
            return None
        if exists:
            return {"rec": {"op": "other", "b": L}}
        from datetime import datetime
        cr = created or datetime.now(timezone.utc)
        return {"rec": {"op": "create", "b": L, "meta": {"type": ascii_name(type), "client": ascii_name(client), "host": ascii_name(hostname),
                                                         "name": "None" if name is None else ascii_name(name), "data": r.mname(data), "created": r.tick(cr) if created else -1}},
                "created_given": created is not None}

    def a_generic(obj, ctx, out, res):
        ds = obj if hasattr(obj, "storage_strategy") else obj.ds
        r = rec_of(ds)
        rec = ctx["rec"]
        rec["out"] = out
        if rec["op"] == "create" and not ctx.get("created_given"):
            # the library stamped the creation instant itself: take it from the observation
            try:
                import iso8601
                back = {v: k for k, v in r.letters.items()}
                rec["meta"]["created"] = r.tick(iso8601.parse_date(ds[back[rec["b"]]].metadata()["created"]))
            except Exception:
                pass
        if rec["op"] == "insert" and out == "ok":
            rec["id"] = res.id if res is not None and isinstance(res.id, int) else -2
        if out != "ok" and rec["op"] not in ("absent",):
            rec = {"op": "other", "b": rec["b"], "out": out}
        r.add(rec)

    def b_update(ds, bucket_id, **kw):
        r = rec_of(ds)
        L = r.letter(bucket_id)
        if L is None:
            return None
        if bucket_id not in ds.buckets():
            return {"rec": {"op": "other", "b": L}}
        f = {"type": "-", "client": "-", "host": "-", "name": "-", "data": "-"}
        for k, arg in (("type", "type_id"), ("client", "client"), ("host", "hostname"), ("name", "name")):
            if kw.get(arg):
                f[k] = ascii_name(kw[arg])
        if kw.get("data"):
            f["data"] = r.mname(kw["data"])
        if all(v == "-" for v in f.values()):
            return {"rec": {"op": "other", "b": L}}
        return {"rec": {"op": "update", "b": L, "f": f}}

    def b_delete_bucket(ds, bucket_id, **kw):
        r = rec_of(ds)
        L = r.letter(bucket_id, create=True)
        if L is None:
            return None
        if bucket_id in ds.buckets():
            return {"rec": {"op": "delete_bucket", "b": L}}
        return {"rec": {"op": "absent", "b": L, "kind": "delete"}}

    wrap(D.Datastore, "create_bucket", b_create, a_generic)
    wrap(D.Datastore, "update_bucket", b_update, a_generic)
    wrap(D.Datastore, "delete_bucket", b_delete_bucket, a_generic)

    # ---- Bucket ------------------------------------------------------------------------------------------
    def evrec(r, e):
        return {"ts": r.tick(e.timestamp), "dur": r.dur(e.duration), "d": r.dname(e.data)}

    def b_insert(bk, events):
        r = rec_of(bk.ds)
        L = r.letter(bk.bucket_id)
        if L is None:
            return None
        if isinstance(events, Event):
            if events.id is not None:
                return {"rec": {"op": "other", "b": L}}
            return {"rec": {"op": "insert", "b": L, "ev": evrec(r, events), "id": -2}}
        if isinstance(events, list) and events and all(isinstance(e, Event) for e in events):
            live = r.live(bk.bucket_id)
            ids = [e.id for e in events if e.id is not None]
            if any(i not in live for i in ids) or len(set(ids)) != len(ids):
                return {"rec": {"op": "other", "b": L}}
            return {"rec": {"op": "bulk", "b": L, "items": [dict(evrec(r, e), id=(-1 if e.id is None else e.id)) for e in events]}}
        return {"rec": {"op": "other", "b": L}}

    def b_replace(bk, event_id, event):
        r = rec_of(bk.ds)
        L = r.letter(bk.bucket_id)
        if L is None:
            return None
        if event_id not in r.live(bk.bucket_id):
            return {"rec": {"op": "other", "b": L}}
        return {"rec": {"op": "replace", "b": L, "id": event_id, "ev": evrec(r, event)}}

    def b_replace_last(bk, event):
        r = rec_of(bk.ds)
        L = r.letter(bk.bucket_id)
        if L is None:
            return None
        first = bk.get(1)
        if not first:
            return {"rec": {"op": "other", "b": L}}
        return {"rec": {"op": "replace_last", "b": L, "pre1": first[0].id, "ev": evrec(r, event)}}

    def b_delete(bk, event_id):
        r = rec_of(bk.ds)
        L = r.letter(bk.bucket_id)
        if L is None:
            return None
        return {"rec": {"op": "delete", "b": L, "id": event_id if isinstance(event_id, int) and abs(event_id) < 2**30 else -3}}

    wrap(D.Bucket, "insert", b_insert, a_generic)
    wrap(D.Bucket, "replace", b_replace, a_generic)
    wrap(D.Bucket, "replace_last", b_replace_last, a_generic)
    wrap(D.Bucket, "delete", b_delete, a_generic)


if ENABLED:
    install()


def pytest_sessionfinish(session, exitstatus):
    if not ENABLED:
        return
    out = os.environ.get("AW_CORE_VERIF_OUT")
    if not out:
        return
    traces = []
    for r in RECS.values():
        if r.trace:
            traces.append({"backend": type(r.ds.storage_strategy).__name__, "trace": r.trace, "cut": r.dead})
    with open(out, "w") as f:
        json.dump(traces, f)
