"""C01: stored events come back exactly as inserted, and the store owns its copy (spec/AwOwnership.tla)."""
import copy
import random

from .. import common, own, store, tlc

MC = """CONSTANTS
  Vals = {"v1", "v2"%s}
  Ids = {0, 1, 2}
  Refs = {1, 2, 3, 4}
  Depth = 6
SPECIFICATION Spec
INVARIANT IdsUnique
INVARIANT ReadsReflectStore
INVARIANT StoredAsInserted
PROPERTY Ownership
CHECK_DEADLOCK FALSE
"""
GEN = """CONSTANTS
  Vals = {"v1", "v2", "v3", "v4"}
  Ids = {0, 1, 2, 3, 4, 5, 6, 7}
  Refs = {1, 2, 3, 4, 5, 6, 7, 8, 9, 10, 11, 12, 13, 14, 15, 16}
  Depth = %d
SPECIFICATION GenSpec
INVARIANT Emit
CHECK_DEADLOCK FALSE
"""
JUDGE = """SPECIFICATION Spec
INVARIANT Verdict
CHECK_DEADLOCK FALSE
"""


def run(prop, tier, seed, replay=None):
    rep = common.Report(prop, tier, seed)
    rnd = random.Random(seed)
    q = tier == "quick"
    if replay is None:
        res = tlc.model_check("AwOwnership", MC % ("" if q else ', "v3"'), tag="mc_own", heap="8g")
        rep.add_model(res, "ownership model: insert (single / bulk) stores a copy, reads hand out new objects, CallerMutate changes the heap only; invariants IdsUnique, ReadsReflectStore, StoredAsInserted; action property Ownership")
        depth = 12 if q else 16
        out = tlc.simulate("AwOwnership", GEN % depth, num=120 if q else 1500, depth=depth, seed=seed, tag="gen_own")
        beh = store.parse_gen_output(out)
        if not beh:
            raise tlc.TLCFailure("AwOwnership generator printed no behaviours:\n" + out[-1500:])
        rnd.shuffle(beh)
        beh = beh[:(250 if q else 1500)]
        behaviours = [("g%d" % i, b) for i, b in enumerate(beh)]
        backends = store.BACKENDS
        konc = 4 if q else 8
    else:
        behaviours = [("replay", replay["ops"])]
        backends = [replay["backend"]]
        konc = 8
    runs = own.run_batch(behaviours, seed, konc, backends=backends)
    traces = [r["trace"] for r in runs]
    ncan = 0
    if replay is None:
        for t in traces:
            if ncan >= 4:
                break
            idx = [i for i, r in enumerate(t) if r["op"] == "mutate" and r["st"]["listing"]]
            if idx:
                t2 = copy.deepcopy(t)
                t2[idx[0]]["st"]["listing"][0]["v"] = "UNKNOWN99"
                traces.append(t2)
                ncan += 1
    acc, rej, stats = tlc.judge("AwOwnershipTrace", JUDGE, traces, tag="judge_c01", chunk=3000)
    rep.add_judge_stats(stats)
    nreal = len(runs)
    for ci in range(nreal, nreal + ncan):
        if ci in acc:
            raise tlc.TLCFailure("canary (stored value changed after a caller mutation) accepted by the judge")
    rep.notes["canaries_rejected"] = ncan
    per, ops = {}, {}
    for r in runs:
        per[r["backend"]] = per.get(r["backend"], 0) + 1
        for x in r["trace"]:
            k = x["op"] + ("/" + x.get("what", x.get("how", "")) if x["op"] in ("mutate", "read") else "")
            ops[k] = ops.get(k, 0) + 1
    rep.cov.update(traces_validated_against_impl=nreal, evaluations=sum(len(t) for t in traces[:nreal]),
                   distinct_nontrivial=len({(r["backend"], repr(r["ops"]), repr(r["values"])) for r in runs}),
                   rule="behaviours simulated by TLC from AwOwnership (insert, bulk insert, lookup, listing, metadata, caller mutation of passed-in / returned / handed-out objects and metadata dicts at field and nested depth), "
                        "each concretised %d times with fresh random (instant 1970..2100 at any UTC offset and us, duration 0..30 days at us granularity, nested unicode/float/null JSON) triples plus boundary instants, "
                        "on memory/sqlite/peewee; distinct by (backend, behaviour, concrete values)" % konc)
    rep.notes.update(traces_per_backend=per, recorded_ops=ops)
    rep.sample({"backend": runs[0]["backend"], "values": runs[0]["values"], "trace": [{k: v for k, v in x.items() if k != "st"} for x in runs[0]["trace"][:6]]})
    for i in sorted(rej):
        if i >= nreal:
            continue
        r = runs[i]
        seen = set()
        for info in rej[i]:
            clause = info["clauses"].strip('"')
            rec = r["trace"][info["l"] - 1]
            key = (clause, rec["op"], rec.get("what", ""))
            if key in seen:
                continue
            seen.add(key)
            rep.violation(dict(backend=r["backend"], op=rec["op"], what=rec.get("what", rec.get("how", "")), clause=clause),
                          "%s: record %d %s: %s" % (r["backend"], info["l"], {k: v for k, v in rec.items() if k != "st"}, clause),
                          dict(backend=r["backend"], ops=r["ops"], values=r["values"], record=rec, clause=clause))
    rep.assumptions += ["value identity = (instant floored to ms, duration in whole us, JSON-equal data): this interning is the projection; the numeric space (about 10^15 instants) is sampled, not exhausted",
                        "whether insert returns the passed object or a copy, and whether it writes the id into the passed object, is free"]
    return rep.finish()
