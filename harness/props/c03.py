"""C03: time-window reads, judged by spec/AwReads.tla (ReadAdmissible / CountAdmissible)."""
import copy
import random

from .. import common, reads, store, tlc

MC_CFG = """CONSTANTS
  Tol = 4
  Pos = {0, 4, 8}
  Lens = {0, 2, 8}
  Edges <- %(edges)s
  Lims <- %(lims)s
  MaxN = %(maxn)d
SPECIFICATION Spec
INVARIANT DesignReadAdmissible
INVARIANT DesignClipReadAdmissible
INVARIANT DesignCountAdmissible
INVARIANT MustSubMay
CHECK_DEADLOCK FALSE
"""
JUDGE_CFG = """CONSTANTS
  Tol = 2
SPECIFICATION Spec
INVARIANT Verdict
CHECK_DEADLOCK FALSE
"""
LIMITS = [-1, -5, 0, 1, 2, 5]
NOTE = {
    "element-not-stored-or-clip": "a returned element is neither a stored event nor that event cut to the window",
    "duplicate": "an event is returned twice",
    "not-newest-first": "results are not ordered by timestamp descending",
    "event-outside-window-returned": "an event lying more than the tolerance outside the window was returned",
    "intersecting-event-missing-or-limit": "an event reaching into the window is missing, or the limit did not keep the newest ones",
    "count-disagrees-with-window": "get_eventcount disagrees with the number of events intersecting the window",
}


def run(prop, tier, seed, replay=None):
    rep = common.Report(prop, tier, seed)
    rnd = random.Random(seed)
    if replay is None:
        q = tier == "quick"
        res = tlc.model_check("MC_AwReads", MC_CFG % dict(edges="EdgesQ" if q else "EdgesT", lims="LimsQ" if q else "LimsT", maxn=2 if q else 3),
                              tag="mc_reads")
        rep.add_model(res, "design layer (Datastore.get window rounding + backend selection/order/limit, with and without clipping, and the count) "
                           "satisfies ReadAdmissible/CountAdmissible for every bucket content x window x limit on the half-millisecond grid")
        jobs = [("g%d" % i, spec, True, LIMITS if not q else [-1, 1, 2]) for i, spec in enumerate(reads.grid_cases())]
        nrand = 2400 if q else 30000
        jobs += [("r%d" % i, None, False, LIMITS) for i in range(nrand)]
        backends = store.BACKENDS
    else:
        rec = replay.get("record") or {}
        how = {"w": rec["w"], "lim": rec.get("lim", -1)} if rec.get("w") else True
        jobs = [("replay", [tuple(x) for x in replay["contents"]], how, LIMITS)]
        backends = [replay["backend"]]
    runs = reads.run_batch(jobs, seed, backends=backends)
    traces = [r["trace"] for r in runs]
    ncan = 0
    if replay is None:
        # canaries: drop a returned event that reaches deep into the window / reverse a two-element result
        for t in traces:
            if ncan >= 6:
                break
            for i, r in enumerate(t):
                if r["op"] == "get" and len(r["res"]) >= 2 and r["res"][0]["ts"] != r["res"][1]["ts"] and r["lim"] < 0:
                    t2 = copy.deepcopy(t)
                    t2[i]["res"] = list(reversed(t2[i]["res"]))
                    traces.append(t2)
                    ncan += 1
                    break
    acc, rej, stats = tlc.judge("AwReadsTrace", JUDGE_CFG, traces, tag="judge_c03", chunk=3000)
    rep.add_judge_stats(stats)
    nreal = len(runs)
    for ci in range(nreal, nreal + ncan):
        if ci in acc:
            raise tlc.TLCFailure("canary trace (reversed result) was accepted by the judge")
    rep.notes["canaries_rejected"] = ncan
    nreads = sum(1 for t in traces[:nreal] for r in t if r["op"] in ("get", "count"))
    def key(x):       # the sub-millisecond jitter and the UTC offsets of the window edges do not make a case distinct
        w = x.get("w", {})
        return repr((x["op"], x.get("lim"), w.get("hs"), w.get("s"), w.get("he"), w.get("e"), x.get("res", x.get("n"))))
    distinct = {(r["backend"], key(x)) for r in runs for x in r["trace"] if x["op"] != "load"}
    rep.cov.update(traces_validated_against_impl=nreal, evaluations=nreads, distinct_nontrivial=len(distinct),
                   rule="bucket contents: all <=2-event contents on grid {0,4,8}x{0,2,8} ms with every window over edges {-5,0,1,4,7,8,13} ms (both/one/no edge) "
                        "and limits, plus random contents (<=4 events, scales 1/10/1000 ms, ~24h events, sub-ms jitter and random UTC offsets on the edges); "
                        "evaluations = recorded get/count calls; distinct by (backend, window, limit, result)")
    per = {}
    for r in runs:
        per[r["backend"]] = per.get(r["backend"], 0) + 1
    rep.notes["traces_per_backend"] = per
    for r in runs[:2]:
        rep.sample({"backend": r["backend"], "trace_head": r["trace"][:4]})
    for i in sorted(rej):
        if i >= nreal:
            continue
        r = runs[i]
        for info in rej[i][:3]:
            l = info.get("l")
            recd = r["trace"][l - 1] if l else {}
            clause = info.get("clauses", "").strip('"')
            sig = dict(backend=r["backend"], op=recd.get("op"), clause=clause)
            text = "%s: %s with window %s limit %s on contents %s returned %s: %s" % (
                r["backend"], recd.get("op"), recd.get("w"), recd.get("lim"), r["trace"][0]["evs"], recd.get("res", recd.get("n")), NOTE.get(clause, clause))
            rep.violation(sig, text, dict(backend=r["backend"], contents=r["contents"], base=r["base"], record=recd, load=r["trace"][0]))
    rep.assumptions += ["Tol = 2 ms: events reaching >= 2 ms into the window must be returned, events >= 2 ms outside must not, the rest may go either way",
                        "ties between equal timestamps may come in any order", "events are at most 24 h long (property's quantifier)"]
    return rep.finish()
