"""C11: a query means what its text says (spec/AwQuery.tla: Show / Run / ExecClause)."""
import copy
import random

from .. import common, query, tlc

JUDGE = """SPECIFICATION Spec
INVARIANT Verdict
CHECK_DEADLOCK FALSE
"""


def chunked(seq, n):
    for i in range(0, len(seq), n):
        yield seq[i:i + n]


def run(prop, tier, seed, replay=None):
    rep = common.Report(prop, tier, seed)
    rnd = random.Random(seed)
    q = tier == "quick"
    pool, cases, res = query.generate(400 if q else 12000, seed)
    rep.add_model(res, "AwQueryGen: enumeration of well-formed programs from the grammar with their texts (Show) in four spacing styles; the judge evaluates Run on each")
    if replay is not None:
        cases = [c for c in cases if c["prog"] == replay["prog"]] or [dict(kind="replay", prog=replay["prog"], texts=replay["texts_pieces"])]
    jobs = [{"key": i, "texts": [query.render(t) for t in c["texts"]]} for i, c in enumerate(cases)]
    kinds = ["memory"] if q else ["memory", "sqlite"]
    records = []
    for kind in kinds:
        runs = query.run_exec(jobs, pool, seed, kind=kind)
        for i, c in enumerate(cases):
            records.append({"kind": "exec", "gen": c["kind"], "backend": kind, "prog": c["prog"], "runs": runs[i], "texts": jobs[i]["texts"]})
    traces = [[{k: v for k, v in r.items() if k not in ("texts", "gen", "backend")} for r in part] for part in chunked(records, 100)]
    ncan = 0
    if replay is None:
        # canaries: drop an argument from a recorded application / change the result
        for r in records:
            if ncan >= 6:
                break
            if all(x["log"] and len(x["log"][0]["a"]) >= 2 for x in r["runs"]):
                bad = copy.deepcopy({k: v for k, v in r.items() if k in ("kind", "prog", "runs")})
                for run_ in bad["runs"]:
                    run_["log"][0]["a"].pop()
                traces.append([bad])
                ncan += 1
    acc, rej, stats = tlc.judge("AwQueryTrace", JUDGE, traces, tag="judge_c11", chunk=16, heap="10g")
    rep.add_judge_stats(stats)
    nreal = len(traces) - ncan
    for ci in range(nreal, nreal + ncan):
        if ci in acc:
            raise tlc.TLCFailure("canary (argument removed from a recorded application) accepted by the judge")
    rep.notes["canaries_rejected"] = ncan
    bykind = {}
    for c in cases:
        bykind[c["kind"]] = bykind.get(c["kind"], 0) + 1
    nexec = sum(len(r["runs"]) for r in records)
    rep.cov.update(traces_validated_against_impl=len(records), evaluations=nexec, distinct_nontrivial=len({repr(r["prog"]) for r in records if len(repr(r["prog"])) > 80}),
                   rule="programs enumerated by TLC from the grammar (literals to depth 3 with strings containing brackets, commas, quotes, '='; calls with 0-3 arguments and bracketed arguments in every position; "
                        "every registered built-in with well-typed arguments over event lists; calls inside literals; multi-statement programs with rebinding/aliasing) plus random deeper programs; each run in 4 spacing styles (tight, spaced, line break after the separator, line break before the separator); "
                        "evaluations = executions judged (result + full log of built-in applications); non-trivial = AST longer than 80 characters")
    rep.notes.update(programs_by_kind=bykind, backends=kinds)
    rep.sample({"text": records[len(records) // 2]["texts"][1], "prog": records[len(records) // 2]["prog"], "run": records[len(records) // 2]["runs"][1]})
    for ti in sorted(rej):
        if ti >= nreal:
            continue
        for info in rej[ti][:6]:
            r = records[ti * 100 + info["l"] - 1]
            clause = info["clauses"].strip('"')
            fns = sorted({e["f"] for e in r["runs"][0]["log"]}) or ["(no call)"]
            rep.violation(dict(clause=clause, backend=r["backend"]), "%s: %r -> %s %s" % (clause, r["texts"][0], r["runs"][0]["out"], r["runs"][0]["result"]),
                          dict(prog=r["prog"], texts=r["texts"], runs=r["runs"], clause=clause, functions=fns))
    rep.assumptions += ["results of the built-ins themselves are not re-derived here (C03..C19 decide them): the specification fixes which built-in is applied to which values in which order and how values flow",
                        "';' inside string literals, negative and float literals, duplicate dict keys are outside the grammar and not generated"]
    return rep.finish()
