"""C20: effective configuration = defaults overlaid by the user's file (spec/AwConfig.tla)."""
import copy
import random

from .. import common, config, tlc

MC = """CONSTANTS
  KeyNames = {"k1", "k2"}
  Leaves <- LeavesQ
SPECIFICATION Spec
INVARIANT ThMergeIsOverlay
INVARIANT ThEmptyUser
INVARIANT ThIdempotent
INVARIANT ThUserWins
INVARIANT ThDefaultsKept
CHECK_DEADLOCK FALSE
"""
JUDGE = """SPECIFICATION Spec
INVARIANT Verdict
CHECK_DEADLOCK FALSE
"""


def chunked(seq, n):
    for i in range(0, len(seq), n):
        yield seq[i:i + n]


def run(prop, tier, seed, replay=None):
    rep = common.Report(prop, tier, seed)
    rnd = random.Random(seed)
    q = tier == "quick"
    if replay is None:
        res = tlc.model_check("MC_AwConfig", MC, tag="mc_cfg")
        rep.add_model(res, "Overlay theorems (empty user file, idempotence, user wins, defaults kept) and agreement of the transcribed _merge with Overlay for every pair of documents of depth <= 3 over 2 keys x 2 leaves")
        small = config.small_docs()
        cases = [(d, u, True, False) for d in small for u in small]
        cases += [(d, None, False, False) for d in small]
        for _ in range(1500 if q else 40000):
            d = config.rand_doc(rnd, 2)
            if rnd.random() < 0.8:
                u = config.rand_doc(rnd, 2)
                # type changes table <-> scalar on shared keys
                if d["v"] and rnd.random() < 0.3:
                    e = rnd.choice(d["v"])
                    kind, v = rnd.choice(config.LEAVES)
                    alt = config.leaf(kind, v) if e["val"]["k"] == "table" else config.table([("alpha", config.leaf(kind, v))])
                    u = config.table([(x["key"], x["val"]) for x in u["v"] if x["key"] != e["key"]] + [(e["key"], alt)])
                cases.append((d, u, True, rnd.random() < 0.5))
            else:
                cases.append((d, None, False, False))
    else:
        cases = [tuple(replay["case"][:4]) + (replay.get("texts"),)]      # the recorded TOML texts are used verbatim
    parts = [(seed * 1000 + i, c) for i, c in enumerate(chunked(cases, 250))]
    traces = common.pmap(config.run_cases, parts)
    texts = [[r.pop("_texts", {}) for r in t] for t in traces]
    ncan = 0
    if replay is None:
        for t in traces:
            for r in t:
                if r["has_file"] and r["u"]["v"] and r["result"]["v"] and ncan < 3:
                    bad = copy.deepcopy(r)
                    bad["result"]["v"] = bad["result"]["v"][1:]
                    traces.append([copy.deepcopy(r)])      # control
                    traces.append([bad])
                    ncan += 1
                    break
    acc, rej, stats = tlc.judge("AwConfigTrace", JUDGE, traces, tag="judge_c20", chunk=60)
    rep.add_judge_stats(stats)
    nreal = len(parts)
    rep.notes["canaries_rejected"] = tlc.check_canary_pairs(acc, nreal, ncan, "a key dropped from the effective configuration")
    rep.cov.update(traces_validated_against_impl=nreal, evaluations=len(cases), distinct_nontrivial=len({repr(c[:3]) for c in cases if c[0]["v"]}),
                   rule="all pairs of 17 small documents (0-2 keys, nesting <= 2, scalar <-> table type changes) with an existing file, each small document without a file, plus random documents of nesting <= 3 over 4 keys and leaf kinds "
                        "int/str/float/bool/array, user files with comments; every case in a fresh config directory; non-trivial = non-empty defaults; distinct by (defaults, user file, file present)")
    rep.notes["with_file"] = sum(1 for c in cases if c[2])
    rep.sample({k: v for k, v in traces[0][min(5, len(traces[0]) - 1)].items()})
    for i in sorted(rej):
        if i >= nreal:
            continue
        for info in rej[i][:4]:
            r = traces[i][info["l"] - 1]
            clause = info["clauses"].strip('"')
            c = cases[i * 250 + info["l"] - 1]
            rep.violation(dict(clause=clause, has_file=r["has_file"]), "%s: defaults %s user %s -> %s" % (clause, config.to_toml(r["d"]).replace("\n", " | "), config.to_toml(r["u"]).replace("\n", " | "), config.to_toml(r["result"]).replace("\n", " | ")),
                          dict(case=list(c), record=r, clause=clause, texts=texts[i][info["l"] - 1]))
    rep.assumptions += ["defaults and user files are rendered with one value per line (the property's restriction for the first-run file); tomlkit's parser is trusted", "documents are compared up to key order"]
    return rep.finish()
