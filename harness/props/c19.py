"""C19: categorize / tag / split_url_events / simplify_string judged by spec/AwClassify.tla."""
import copy
import random

from .. import classify, common, tlc

MC = """CONSTANTS
  Toks = {"t1", "t2"}
  Cats <- CatsQ
  MaxRules = 2
  GeTie = %s
SPECIFICATION Spec
INVARIANT DesignCategoryOK
INVARIANT DesignTagsOK
CHECK_DEADLOCK FALSE
"""
JUDGE = """SPECIFICATION Spec
INVARIANT Verdict
CHECK_DEADLOCK FALSE
"""


def chunked(seq, n):
    for i in range(0, len(seq), n):
        yield seq[i:i + n]


def gen_cases(tier, rnd):
    n = 2500 if tier == "quick" else 60000
    cases = []
    for _ in range(n):
        r = rnd.random()
        evs = classify.rand_events(rnd, rnd.randint(0, 3))
        if r < 0.45:
            k = rnd.randint(0, 3)
            classes = [{"cls": rnd.choice(classify.CATS), "rule": classify.rand_rule(rnd)} for _ in range(k)]
            if classes and rnd.random() < 0.4:      # force equal depths / overlapping matches
                classes.append({"cls": [x + "b" for x in classes[0]["cls"]], "rule": copy.deepcopy(classes[0]["rule"])})
            cases.append(("categorize", evs, classes))
        elif r < 0.8:
            k = rnd.randint(0, 3)
            classes = [{"cls": rnd.choice(["tagA", "tagB", "tagC"]), "rule": classify.rand_rule(rnd)} for _ in range(k)]
            cases.append(("tag", evs, classes))
        elif r < 0.9:
            for e in evs:
                if rnd.random() < 0.7:
                    e["data"]["url"] = {"k": "str", "lit": rnd.choice(list(classify.URLS))}
            cases.append(("split_url", evs))
        else:
            key = rnd.choice(["title", "k1", "k1"])
            for e in evs:
                e["data"][key] = {"k": "str", "lit": rnd.choice(list(classify.TITLES))}
                if key != "title" and rnd.random() < 0.7:
                    e["data"]["title"] = {"k": "str", "lit": rnd.choice(list(classify.TITLES))}     # an unrelated value that must stay
                if rnd.random() < 0.5:
                    e["data"]["app"] = {"k": "str", "toks": [{"t": "t1", "c": "l"}]}
            cases.append(("simplify", evs, key))
    return cases


def run(prop, tier, seed, replay=None):
    rep = common.Report(prop, tier, seed)
    rnd = random.Random(seed)
    if replay is None:
        res = tlc.model_check("MC_AwClassify", MC % "TRUE", tag="mc_cls", heap="8g")
        rep.add_model(res, "transcriptions of Rule.match and of reduce(_pick_deepest_cat) agree with CategoryOf / TagsOf for every event over 2 tokens x 2 cases and every list of <= 2 rules")
        neg = tlc.model_check("MC_AwClassify", MC % "FALSE", tag="mc_cls_neg", heap="8g", expect_ok=False)
        if neg["ok"]:
            raise tlc.TLCFailure("negative control (tie-break '>' instead of '>=') was not refuted")
        rep.notes["negative_control"] = "fold with '>' (earlier rule wins ties) refuted after %d states" % neg["states"]
        cases = gen_cases(tier, rnd)
    else:
        cases = [tuple(replay["case"])]
    parts = [(seed * 1000 + i, c) for i, c in enumerate(chunked(cases, 300))]
    traces = common.pmap(classify.run_cases, parts)
    ncan = 0
    if replay is None:
        for t in traces[:8]:
            for r in t:
                if r["op"] == "categorize" and r["out"]:
                    bad = copy.deepcopy(r)
                    bad["out"][0]["cat"] = ["zz-not-a-category"]
                    traces.append([copy.deepcopy(r)])      # control
                    traces.append([bad])
                    ncan += 1
                    break
    acc, rej, stats = tlc.judge("AwClassifyTrace", JUDGE, traces, tag="judge_c19", chunk=60)
    rep.add_judge_stats(stats)
    nreal = len(parts)
    rep.notes["canaries_rejected"] = tlc.check_canary_pairs(acc, nreal, ncan, "category replaced")
    byop = {}
    for c in cases:
        byop[c[0]] = byop.get(c[0], 0) + 1
    rep.cov.update(traces_validated_against_impl=nreal, evaluations=len(cases), distinct_nontrivial=len({repr(c) for c in cases if c[1]}),
                   rule="random event lists (<= 3 events, keys k1..k3 holding token strings in either case incl. unicode, ints, lists, null, or missing) x rule lists (<= 4 rules: literal-token regex, empty or missing regex, "
                        "ignore_case, select_keys hitting missing / non-string values, equal depths, duplicated rules); split_url_events and simplify_string on url/title pools (frame relation only); non-trivial = non-empty event list")
    rep.notes["calls_by_function"] = byop
    rep.sample(traces[0][:1])
    for i in sorted(rej):
        if i >= nreal:
            continue
        for info in rej[i][:4]:
            r = traces[i][info["l"] - 1]
            clause = info["clauses"].strip('"')
            case = cases[i * 300 + info["l"] - 1]
            rep.violation(dict(op=r.get("fn", r["op"]), clause=clause), "%s on %s: %s" % (r.get("fn", r["op"]), case[1:], clause), dict(case=list(case), record=r))
    rep.assumptions += ["a regex is one literal word (the regex engine, urlparse and the title regexes are not modelled); for split_url_events and simplify_string only the frame relation is decided",
                        "simplify_string is called on events that carry the key (it raises KeyError otherwise, which the property does not cover)"]
    return rep.finish()
