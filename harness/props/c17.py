"""C17: any query text parses or is rejected with a query error, and terminates (spec/AwQueryTrace.tla)."""
import itertools
import random

from .. import common, query, tlc

JUDGE = """SPECIFICATION Spec
INVARIANT Verdict
CHECK_DEADLOCK FALSE
"""
ALPHABET = ["a", "1", "'", '"', "(", ")", "[", "]", "{", "}", ",", ":", "=", ";", " ", "\\", "_", "-"]
CONTEXTS = ["RETURN=%s", "RETURN=nop(%s)", "RETURN=[%s]", "RETURN={%s}", "RETURN=concat([1],%s)", "x=1;%s", "%s"]
INSERT = ["(", ")", "[", "]", "{", "}", "'", '"', ",", ":", "=", ";", " ", "x", "1", "_", "-", ".", "\\", "\n", "#", "+"]


def chunked(seq, n):
    for i in range(0, len(seq), n):
        yield seq[i:i + n]


def corruptions(text):
    out = []
    for i in range(len(text)):
        out.append(text[:i] + text[i + 1:])                       # delete
        out.append(text[:i] + text[i] + text[i:])                 # duplicate
        if i + 1 < len(text):
            out.append(text[:i] + text[i + 1] + text[i] + text[i + 2:])   # swap
    for i in range(len(text) + 1):
        for c in INSERT:
            out.append(text[:i] + c + text[i:])                   # insert
    return out


def _stale_worker(kind):
    """state left by earlier queries: a bucket is queried while it exists, deleted, and queried again in the same process -
    the same text now names an unknown bucket and must be refused with a query-function error"""
    import os
    import shutil
    from .. import store
    root = common.scratch_dir("c17s_%d_%s" % (os.getpid(), kind))
    ds = store.mk_datastore(kind, root)
    out = []
    try:
        rec = query.Recorder({})
        try:
            for i, text in enumerate(["RETURN=query_bucket('c17-tmp-%d');", "RETURN=query_bucket_eventcount('c17-tmp-%d');", "x=flood(query_bucket('c17-tmp-%d'));RETURN=x;"]):
                bid = "c17-tmp-%d" % i
                text = text % i
                ds.create_bucket(bid, "t", "c", "h")
                first = query.run_text(ds, rec, text)
                ds.delete_bucket(bid)
                again = query.run_text(ds, rec, text)
                out.append(dict(kind="fault", fault="unknown-bucket", out=again["out"], exc=again["exc"], text="%s  [after the bucket was queried (%s) and deleted; %s]" % (text, first["out"], kind)))
        finally:
            rec.close()
    finally:
        store.close_datastore(kind, ds)
        shutil.rmtree(root, ignore_errors=True)
    return out


def run(prop, tier, seed, replay=None):
    rep = common.Report(prop, tier, seed)
    rnd = random.Random(seed)
    q = tier == "quick"
    pool, cases, res = query.generate(0, seed, tag="qgen17")
    rep.add_model(res, "AwQueryGen: well-formed programs, single-fault programs (unknown variable/function, argument count +-1, wrong top-level argument type, unknown bucket) with the family the specification expects, malformed texts")
    faults = query.generate.faults
    items = []       # (record skeleton, [texts])
    if replay is not None:
        items = [(dict(kind=replay["kind"], fault=replay.get("fault", "-")), [replay["text"]])]
    else:
        for f in faults:
            for t in f["texts"]:
                items.append((dict(kind="fault", fault=f["fault"]), [query.render(t)]))
        bases = [c for c in cases if 25 < len(query.render(c["texts"][0])) < 90]
        rnd.shuffle(bases)
        for c in bases[:(25 if q else 400)]:
            for t in corruptions(query.render(c["texts"][0])):
                items.append((dict(kind="text", fault="corruption"), [t]))
        for n in range(0, (3 if q else 4) + 1):
            for tup in itertools.product(ALPHABET, repeat=n):
                s = "".join(tup)
                for ctx in CONTEXTS:
                    items.append((dict(kind="text", fault="short"), [ctx % s]))
    jobs = [{"key": i, "texts": it[1]} for i, it in enumerate(items)]
    runs = query.run_exec(jobs, pool, seed, kind="memory")
    records = []
    for i, (skel, texts) in enumerate(items):
        r = runs[i][0]
        records.append(dict(skel, out=r["out"], exc=r["exc"], text=texts[0]))
    if replay is None:
        for part in common.pmap(_stale_worker, ["memory", "sqlite", "peewee"]):
            records += part
    traces = [[{k: v for k, v in r.items() if k != "text"} for r in part] for part in chunked(records, 2000)]
    ncan = 0
    if replay is None:
        traces.append([dict(kind="text", fault="canary", out="IndexError", exc={"cls": "IndexError", "fam": ["IndexError", "LookupError", "Exception"], "stage": "parse-or-interpret"})])
        traces.append([dict(kind="fault", fault="unknown-variable", out="QueryFunctionException", exc={"cls": "QueryFunctionException", "fam": ["QueryFunctionException", "QueryException", "Exception"], "stage": "resolve"})])
        ncan = 2
    # at most 300 000 records per TLC run: one run over 1.4 million records (thorough tier) spent its time in garbage collection
    acc, rej, stats = tlc.judge("AwQueryTrace", JUDGE, traces, tag="judge_c17", heap="10g", chunk=150)
    rep.add_judge_stats(stats)
    nreal = len(traces) - ncan
    for ci in range(nreal, nreal + ncan):
        if ci in acc:
            raise tlc.TLCFailure("canary (escaping IndexError / wrong family) accepted by the judge")
    rep.notes["canaries_rejected"] = ncan
    bykind, outcomes = {}, {}
    for r in records:
        bykind[r["fault"]] = bykind.get(r["fault"], 0) + 1
        outcomes[r["out"]] = outcomes.get(r["out"], 0) + 1
    rep.cov.update(traces_validated_against_impl=len(records), evaluations=len(records), distinct_nontrivial=len({r["text"] for r in records if r["out"] != "ok"}),
                   rule="(i) single-fault programs generated by TLC with the expected error family; (ii) every single-character deletion, duplication, adjacent swap and insertion (15 characters) at every position of "
                        "sampled valid program texts; (iii) every string of length <= %d over a 16-symbol alphabet in 7 contexts; each executed under a 5 s CPU-time budget (exceeding it is outcome Hang, never admissible); "
                        "non-trivial = distinct texts that were rejected" % (3 if q else 4), exhaustive=False)
    rep.notes.update(texts_by_kind=bykind, outcomes=outcomes)
    for r in records[:1] + records[len(records) // 2: len(records) // 2 + 2]:
        rep.sample({"text": r["text"], "kind": r["kind"], "fault": r["fault"], "out": r["out"]})
    seen = {}
    for ti in sorted(rej):
        if ti >= nreal:
            continue
        for info in rej[ti]:
            r = records[ti * 2000 + info["l"] - 1]
            clause = info["clauses"].strip('"')
            key = (r["kind"], r["fault"], clause, r["out"], r["exc"]["stage"])
            seen[key] = seen.get(key, 0) + 1
            if seen[key] > 3:
                continue
            rep.violation(dict(kind=r["kind"], fault=r["fault"], clause=clause, out=r["out"]), "%s (%s): %r -> %s at stage %s" % (clause, r["fault"], r["text"], r["out"], r["exc"]["stage"]),
                          dict(kind=r["kind"], fault=r["fault"], text=r["text"], out=r["out"], exc=r["exc"]))
    rep.notes["rejections_by_signature"] = {"/".join(map(str, k)): v for k, v in seen.items()}
    rep.assumptions += ["an exception of another type is a violation only when raised by parsing or by name / arity / type resolution (innermost frame in aw_query.query2 or the registry wrappers); "
                        "exceptions raised inside a built-in's own computation on well-typed top-level arguments are not judged",
                        "malformed text may be accepted by the lenient parser (yielding a value); if rejected it must be a parse error"]
    return rep.finish()
