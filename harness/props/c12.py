"""C12: queries only read (spec/AwQueryStoreTrace.tla)."""
import copy
import os
import random
import shutil
from datetime import timedelta

from .. import common, query, reads, store, tlc

JUDGE = """CONSTANTS
  Tol = 2
SPECIFICATION Spec
INVARIANT Verdict
CHECK_DEADLOCK FALSE
"""
MS = timedelta(milliseconds=1)
US = timedelta(microseconds=1)


def sdump(ds):
    d = query.dump(ds)
    out = []
    for bid in sorted(d):
        out.append({"id": "".join(c if ord(c) < 128 else "?" for c in bid), "meta": [[k, d[bid]["meta"][k]] for k in sorted(d[bid]["meta"])],
                    "evs": [[str(e["id"]), e["ts"], str(e["dur"]), e["data"]] for e in d[bid]["evs"]]})
    return out


def _mut_worker(args):
    kind, seed, pool, texts = args
    root = common.scratch_dir("m%d_%s_%d" % (os.getpid(), kind, seed % 100000))
    ds = store.mk_datastore(kind, root)
    query.populate(ds, pool)
    rec = query.Recorder(pool)
    out = []
    calls = []

    def pevs(evs):
        import json as _json
        return [[str(e.id), e.timestamp.isoformat(), str(e.duration.total_seconds()), _json.dumps(e.data, sort_keys=True)] for e in evs]

    def on_return(name, datastore, args, ret):
        # what query_bucket hands to the program, next to a direct windowed read over the query's instants
        if name == "query_bucket" and args and isinstance(ret, list):
            calls.append({"got": pevs(ret), "direct": pevs(datastore[args[0]].get(starttime=query.QSTART, endtime=query.QEND))})

    rec.on_return = on_return
    try:
        pre = sdump(ds)
        for t in texts:
            del calls[:]
            r = query.run_text(ds, rec, t)
            post = sdump(ds)
            out.append({"op": "query", "text": t, "backend": kind, "out": r["out"], "pre": pre, "post": post, "reads": list(calls)})
            pre = post
    finally:
        rec.close()
        store.close_datastore(kind, ds)
        shutil.rmtree(root, ignore_errors=True)
    return out


def _qb_worker(args):
    kind, seed, n = args
    from aw_core.models import Event
    from aw_query import query as q
    rnd = random.Random(seed)
    root = common.scratch_dir("b%d_%s_%d" % (os.getpid(), kind, seed % 100000))
    ds = store.mk_datastore(kind, root)
    out = []
    try:
        for i in range(n):
            cz = store.Concretiser(rnd, scales=(1,))
            scale = rnd.choice([1, 10, 1000])
            if rnd.random() < 0.25:
                # windows and events around the wall-clock present (a query over "the last hour" straddles now)
                from datetime import datetime, timezone
                cz.base = datetime.now(timezone.utc).replace(microsecond=0) - 3 * scale * MS
            base = cz.base
            bid = "qb-%d-%d" % (seed, i)
            # half of the stores also hold a bucket whose id differs from the queried one in letter case only, created before or
            # after it, with an event of its own across the whole range: a query names exactly one bucket
            twin = bid.upper() if rnd.random() < 0.5 else None
            twin_first = rnd.random() < 0.5
            if twin and twin_first:
                ds.create_bucket(twin, "t", "c", "h").insert(Event(timestamp=cz.dt(0) - 5 * scale * MS, duration=60 * scale * MS, data={"i": 77}))
            b = ds.create_bucket(bid, "t", "c", "h")
            if twin and not twin_first:
                ds.create_bucket(twin, "t", "c", "h").insert(Event(timestamp=cz.dt(0) - 5 * scale * MS, duration=60 * scale * MS, data={"i": 77}))
            spec = reads.contents_pool(rnd, scale)
            evl = [Event(timestamp=cz.dt(0) + s * MS, duration=ln * MS, data={"i": k}) for k, (s, ln) in enumerate(spec)]
            if evl:
                b.insert(evl)

            def tick(dt):
                qq, r = divmod(dt - base, MS)
                return qq if r == timedelta(0) and abs(qq) < 2**30 else -99999

            def pe(e):
                qq, r = divmod(e.duration, MS)
                return {"id": e.id if isinstance(e.id, int) else -2, "ts": tick(e.timestamp), "dur": qq if r == timedelta(0) else -99999, "d": "d%s" % e.data.get("i", "?")}

            stored = [pe(e) for e in b.get(-1)]
            for _ in range(6):
                ws_t = rnd.randrange(-3, 14) * scale
                we_t = ws_t + rnd.choice([0, 1, 2, 3, 8, 30]) * scale
                ws = (base + ws_t * MS + rnd.randrange(0, 1000) * US).astimezone(cz.tz())
                we = (base + we_t * MS + rnd.randrange(0, 1000) * US).astimezone(cz.tz())
                if ws > we:
                    we = ws
                w = {"hs": True, "s": ws_t, "he": True, "e": (we - base) // MS}
                res = q("qname", "RETURN = query_bucket('%s');" % bid, ws, we, ds)
                cnt = q("qname", "n = query_bucket_eventcount('%s'); RETURN = n;" % bid, ws, we, ds)
                direct = b.get(-1, ws, we)
                nd = b.get_eventcount(ws, we)
                out.append({"op": "qb", "backend": kind, "w": w, "evs": stored, "res": [pe(e) for e in res], "direct": [pe(e) for e in direct],
                            "n": cnt if isinstance(cnt, int) else -1, "ndirect": nd})
            # the same window again after (a) a query that read the bucket and then FAILED, (b) a change of the bucket: what a
            # query reads is what the store holds now, whatever earlier queries of the process did
            from datetime import datetime as _dt, timezone as _tz
            if ws + (we - ws) / 2 < _dt(1970, 1, 2, tzinfo=_tz.utc):
                ds.delete_bucket(bid)
                if twin:
                    ds.delete_bucket(twin)
                continue          # the event added below would lie before 1970: outside the instants the properties talk about
            try:
                q("qname", "x = query_bucket('%s'); y = query_bucket_eventcount('%s'); RETURN = no_such_function(x);" % (bid, bid), ws, we, ds)
            except Exception:
                pass
            b.insert(Event(timestamp=ws + (we - ws) / 2, duration=0, data={"i": 90}))
            if evl and rnd.random() < 0.5:
                b.delete(b.get(1)[0].id)
            stored = [pe(e) for e in b.get(-1)]
            res = q("qname", "RETURN = query_bucket('%s');" % bid, ws, we, ds)
            cnt = q("qname", "n = query_bucket_eventcount('%s'); RETURN = n;" % bid, ws, we, ds)
            out.append({"op": "qb", "backend": kind, "w": w, "evs": stored, "res": [pe(e) for e in res], "direct": [pe(e) for e in b.get(-1, ws, we)],
                        "n": cnt if isinstance(cnt, int) else -1, "ndirect": b.get_eventcount(ws, we)})
            ds.delete_bucket(bid)
            if twin:
                ds.delete_bucket(twin)
    finally:
        store.close_datastore(kind, ds)
        shutil.rmtree(root, ignore_errors=True)
    return out


def chunked(seq, n):
    for i in range(0, len(seq), n):
        yield seq[i:i + n]


def run(prop, tier, seed, replay=None):
    rep = common.Report(prop, tier, seed)
    rnd = random.Random(seed)
    q = tier == "quick"
    pool, cases, res = query.generate(100 if q else 3000, seed, tag="qgen12")
    rep.add_model(res, "AwQueryGen: programs over the populated buckets, including ones that annotate, clear or re-time events in place (categorize, tag, split_url_events, period_union, flood, chunk) and single-fault programs that raise midway")
    texts = [query.render(c["texts"][0]) for c in cases if c["kind"] in ("builtins", "random")]
    texts += [query.render(f["texts"][0]) for f in query.generate.faults if f["fault"] != "malformed" and "query_bucket" in query.render(f["texts"][0])]
    if replay is not None:
        texts = [replay["text"]]
    if q:
        rnd.shuffle(texts)
        texts = texts[:700]
    tasks = []
    per = max(1, common.ncpu() // 3)
    for bi, kind in enumerate(store.BACKENDS):
        for w in range(per):
            part = texts[w::per]
            if part:
                tasks.append((kind, seed * 100 + bi * 10 + w, pool, part))
    mut = [r for part in common.pmap(_mut_worker, tasks, procs=len(tasks)) for r in part]
    qb = []
    if replay is None:
        nq = 25 if q else 400
        qtasks = [(kind, seed * 1000 + bi * 100 + w, nq) for bi, kind in enumerate(store.BACKENDS) for w in range(per)]
        qb = [r for part in common.pmap(_qb_worker, qtasks, procs=len(qtasks)) for r in part]
    records = mut + qb
    traces = [[{k: v for k, v in r.items() if k not in ("text", "backend", "out")} for r in part] for part in chunked(records, 150)]
    ncan = 0
    if replay is None and mut:
        bad = copy.deepcopy({k: v for k, v in mut[0].items() if k in ("op", "pre", "post")})
        bad["post"][0]["evs"][0][3] = bad["post"][0]["evs"][0][3].replace("app", "APP")
        traces.append([bad])
        ncan = 1
    acc, rej, stats = tlc.judge("AwQueryStoreTrace", JUDGE, traces, tag="judge_c12", chunk=8, heap="10g")
    rep.add_judge_stats(stats)
    nreal = len(traces) - ncan
    for ci in range(nreal, nreal + ncan):
        if ci in acc:
            raise tlc.TLCFailure("canary (an event's data changed across a query) accepted by the judge")
    rep.notes["canaries_rejected"] = ncan
    outc = {}
    for r in mut:
        outc[r["out"]] = outc.get(r["out"], 0) + 1
    rep.cov.update(traces_validated_against_impl=len(records), evaluations=len(records), distinct_nontrivial=len({r["text"] for r in mut}) + len({repr((r["w"], r["evs"])) for r in qb}),
                   rule="every generated program that reads buckets (all built-ins, nested, multi-statement, in-place annotating ones) and single-fault programs that raise after reading, on memory/sqlite/peewee with a full "
                        "dump of all buckets before and after; plus random bucket contents x query windows (sub-ms jitter, UTC offsets) comparing query_bucket / query_bucket_eventcount with direct windowed reads; "
                        "distinct by program text / (window, contents)")
    rep.notes.update(query_outcomes=outc, programs=len(mut), window_comparisons=len(qb))
    rep.sample({"text": mut[0]["text"], "backend": mut[0]["backend"], "out": mut[0]["out"], "buckets": len(mut[0]["pre"])})
    if qb:
        rep.sample({k: v for k, v in qb[0].items()})
    for ti in sorted(rej):
        if ti >= nreal:
            continue
        for info in rej[ti][:5]:
            r = records[ti * 150 + info["l"] - 1]
            clause = info["clauses"].strip('"')
            if r["op"] == "query":
                rep.violation(dict(backend=r["backend"], clause=clause), "%s: %s after %r (%s)" % (r["backend"], clause, r["text"], r["out"]), dict(backend=r["backend"], text=r["text"], clause=clause))
            else:
                rep.violation(dict(backend=r["backend"], clause=clause), "%s: %s window %s contents %s: query %s direct %s counts %s/%s" % (r["backend"], clause, r["w"], r["evs"], r["res"], r["direct"], r["n"], r["ndirect"]),
                              dict(backend=r["backend"], record=r, clause=clause))
    rep.assumptions += ["the dump is what Datastore.buckets(), Bucket.metadata() and Bucket.get(-1) return, compared as text", "Tol = 2 ms as in C03"]
    return rep.finish()
