"""C07 / C08: heartbeat merge rule, reduction, and the ingestion loop through the store."""
import copy
import random

from .. import common, hb, store, tlc

MC_TH = """CONSTANTS
  Tk = {%(tk)s}
  Du %(du)s
  Da = {"a", "b"}
  Ps = {0, 1, 2, 4}
  MaxLen = %(n)d
SPECIFICATION SpecT
INVARIANT ThNormalForm
INVARIANT ThIdempotent
INVARIANT ThCovers
INVARIANT ThPairs
INVARIANT ThLenNonInc
CHECK_DEADLOCK FALSE
"""
MC_LOOP = """CONSTANTS
  Buckets = {"A", "B"}
  Ticks = {0}
  Durs = {0}
  Datas = {"d1", "d2"}
  Ids = {0}
  Strs = {"s1"}
  MDatas = {"m0"}
  MaxEvs = 9
  Tk = {%(tk)s}
  Du = {0, 1, 2, 3}
  Ps = {0, 1, 2}
  MaxLen = %(n)d
SPECIFICATION LSpec
INVARIANT LoopEqualsReduce
INVARIANT SpectatorUntouched
INVARIANT IdsUniquePerBucket
PROPERTY EarlierUntouched
CHECK_DEADLOCK FALSE
"""
JUDGE = """SPECIFICATION Spec
INVARIANT Verdict
CHECK_DEADLOCK FALSE
"""


def chunked(seq, n):
    for i in range(0, len(seq), n):
        yield seq[i:i + n]


def run_c08(prop, tier, seed, replay):
    rep = common.Report(prop, tier, seed)
    rnd = random.Random(seed)
    q = tier == "quick"
    if replay is None:
        res = tlc.model_check("MC_AwHeartbeat", MC_TH % dict(tk="0, 2, 4", du="= {0, 2, 4}" if q else "<- DuT", n=3), tag="mc_hb_th", heap="8g")
        rep.add_model(res, "theorems of the merge rule on every list of <= 3 events (ticks {0,1,2}, durations, data {a,b}) x pulsetime {0,1/2,1,2}: "
                           "normal form, idempotence, coverage, never-shortens, length non-increasing")
        cases = [("merge",) + c for c in hb.merge_cases(q)]
        cases += [("reduce", lst, p2) for lst in hb.all_lists(3 if q else 4) for p2 in ((0, 2) if q else (0, 1, 2, 4))]
        cases += [("reduce", lst, p2) for lst, p2 in hb.list_cases(rnd, 3000 if q else 60000, 5)]
    else:
        cases = [tuple(replay["case"])]
    parts = [(seed * 100 + i, c) for i, c in enumerate(chunked(cases, 400))]
    traces = common.pmap(hb.run_pure, parts)
    ncan = 0
    if replay is None:
        for t in traces[:4]:
            for r in t:
                if r["op"] == "merge" and r["hit"]:
                    bad = copy.deepcopy(r)
                    bad["out"]["dur"] += 2
                    traces.append([copy.deepcopy(r)])      # control
                    traces.append([bad])
                    ncan += 1
                    break
    acc, rej, stats = tlc.judge("AwHeartbeatTrace", JUDGE, traces, tag="judge_c08")
    rep.add_judge_stats(stats)
    nreal = len(parts)
    rep.notes["canaries_rejected"] = tlc.check_canary_pairs(acc, nreal, ncan, "merged duration corrupted")
    nmerge = sum(1 for c in cases if c[0] == "merge")
    rep.cov.update(traces_validated_against_impl=nreal, evaluations=len(cases), distinct_nontrivial=len({repr(c) for c in cases}),
                   rule="all pairs on timestamps {0..3} x durations {-1,0,1,2} x equal/different data x pulsetime {0,1/2,1,2} ticks (%d pairs); all lists of <= %d events on a small grid "
                        "and random lists of <= 5 events in any order; each call recorded (result, second application) and judged; distinct by input" % (nmerge, 3 if q else 4),
                   exhaustive=False)
    rep.sample(traces[0][:3])
    rep.sample([r for r in traces[len(parts) - 1] if r["op"] == "reduce"][:2])
    for i in sorted(rej):
        if i >= nreal:
            continue
        for info in rej[i][:5]:
            r = traces[i][info["l"] - 1]
            clause = info["clauses"].strip('"')
            if r["op"] == "raised":
                rep.violation(dict(op=r["fn"], clause=clause), "%s raised %s on %s" % (r["fn"], r["exc"], r["inp"]), dict(case=list(cases[i * 400 + info["l"] - 1]), record=r))
                continue
            case = ("merge", half(r["e1"]), half(r["e2"]), r["P"]) if r["op"] == "merge" else ("reduce", [half(e) for e in r["inp"]], r["P"])
            rep.violation(dict(op=r["op"], clause=clause), "%s: %s -> %s" % (clause, {k: v for k, v in r.items() if k not in ("out", "again")}, r.get("out")),
                          dict(case=case, record=r))
    rep.assumptions += ["times on a tick grid concretised at 2/10/1000 ms per tick at random base instants; pulsetimes are multiples of half a tick"]
    return rep.finish()


def half(e):
    return {"ts": e["ts"] // 2, "dur": e["dur"] // 2, "d": e["d"]}


def run_c07(prop, tier, seed, replay):
    rep = common.Report(prop, tier, seed)
    rnd = random.Random(seed)
    q = tier == "quick"
    if replay is None:
        res = tlc.model_check("MC_AwHeartbeatLoop", MC_LOOP % dict(tk="0, 1, 2, 3, 4", n=3 if q else 4), tag="mc_hb_loop", heap="8g")
        rep.add_model(res, "ingestion loop built from AwStore's step relation (limit-1 read, merge, replace-last or insert) leaves exactly Reduce(stream) for every stream "
                           "of <= %d heartbeats on ticks 0..4 x pulsetime {0,1,2}; spectator bucket untouched; earlier events untouched" % (3 if q else 4))
        allst = hb.streams(3 if q else 4)
        jobs = []
        for i, s in enumerate(allst):
            for p2 in ((rnd.choice([0, 1, 2, 4]),) if q else (0, 1, 2, 4)):
                jobs.append(("s%d" % i, s, p2))
        rnd.shuffle(jobs)
        jobs = jobs[:(1500 if q else 40000)]
        # longer random streams
        for i in range(300 if q else 6000):
            s, t, end = [], -1, 0
            for _ in range(rnd.randint(4, 9)):
                t += rnd.choice([1, 1, 2, 3])
                d = max(rnd.choice([0, 0, 1, 2, 4]), end - t)
                end = t + d
                s.append({"ts": t, "dur": d, "d": rnd.choice("aab")})
            jobs.append(("r%d" % i, s, rnd.choice([0, 1, 2, 4])))
        backends = store.BACKENDS
    else:
        jobs = [("replay", replay["stream"], replay["P"])]
        backends = [replay["backend"]]
    runs = hb.run_loops(jobs, seed, backends=backends)
    traces = [r["trace"] for r in runs]
    ncan = 0
    if replay is None:
        for t in traces:
            if ncan >= 4:
                break
            hbs = [i for i, r in enumerate(t) if r["op"] == "hb"]
            if len(hbs) >= 2 and len(t[hbs[-1]]["st"]) >= 2:
                t2 = copy.deepcopy(t)
                t2[hbs[-1]]["st"][-1]["dur"] += 2      # an earlier event silently altered
                traces.append(t2)
                ncan += 1
    acc, rej, stats = tlc.judge("AwHeartbeatTrace", JUDGE, traces, tag="judge_c07", chunk=6000)
    rep.add_judge_stats(stats)
    nreal = len(runs)
    for ci in range(nreal, nreal + ncan):
        if ci in acc:
            raise tlc.TLCFailure("canary (earlier event altered) accepted by the judge")
    rep.notes["canaries_rejected"] = ncan
    per = {}
    for r in runs:
        per[r["backend"]] = per.get(r["backend"], 0) + 1
    rep.cov.update(traces_validated_against_impl=nreal, evaluations=sum(len(t) for t in traces[:nreal]),
                   distinct_nontrivial=len({(r["backend"], repr(r["stream"]), r["P"]) for r in runs if len(r["stream"]) >= 2}),
                   rule="all heartbeat streams of <= %d events on ticks 0..5, durations 0..3, data {a,b} (strictly increasing timestamps, non-decreasing ends) with pulsetimes {0,1/2,1,2} "
                        "(a random 1500 of them in the quick tier, 40000 in the thorough tier) plus longer random streams, each run on memory/sqlite/peewee in a database that also holds a populated spectator bucket sharing instants; "
                        "non-trivial = stream of >= 2 heartbeats" % (3 if q else 4))
    rep.notes["streams_per_backend"] = per
    rep.sample({"backend": runs[0]["backend"], "stream": runs[0]["stream"], "P_halfticks": runs[0]["P"], "trace": runs[0]["trace"][:3]})
    for i in sorted(rej):
        if i >= nreal:
            continue
        r = runs[i]
        info = rej[i][0]
        clause = info["clauses"].strip('"')
        rec = r["trace"][info["l"] - 1]
        rep.violation(dict(backend=r["backend"], clause=clause), "%s: stream %s pulsetime %s/2 ticks: record %d (%s): %s" % (r["backend"], r["stream"], r["P"], info["l"], rec["op"], clause),
                      dict(backend=r["backend"], stream=r["stream"], P=r["P"], record=rec, clause=clause))
    rep.assumptions += ["the loop is the standard one: get(limit=1), heartbeat_merge, then replace_last(merged) or insert(heartbeat)"]
    return rep.finish()


def run(prop, tier, seed, replay=None):
    return run_c08(prop, tier, seed, replay) if prop == "C08" else run_c07(prop, tier, seed, replay)
