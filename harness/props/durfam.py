"""C06 / C18: crash-point histories on the file-backed stores judged against spec/AwDurableTrace.tla;
the commit policy's design layer (spec/AwDurable.tla) is model-checked against the property layer."""
import copy
import json
import random
import re

from .. import common, tlc

MC = """CONSTANTS
  Threshold = 50
  AgeLimit = 10
  DeletesCounted = %(dc)s
  AgeTestReversed = %(rev)s
  MigrationCommits = %(mig)s
  BulkDecidesOnce = %(bo)s
  MaxBuffered = 64
  AgeMust = 15
  BulkSizes = {%(bulk)s}
  TickSizes = {%(ticks)s}
  MaxIssued = %(maxi)d
  MaxTime = %(maxt)d
SPECIFICATION Spec
CONSTRAINT Bound
%(invs)s
"""
ALL_INVS = "INVARIANT BufferedBounded\nINVARIANT BucketOpsDurable\nINVARIANT AgeBound\nINVARIANT CounterExact\nPROPERTY DurableMonotone"
GEN = """CONSTANTS
  Threshold = 50
  AgeLimit = 10
  DeletesCounted = TRUE
  AgeTestReversed = FALSE
  MigrationCommits = TRUE
  BulkDecidesOnce = TRUE
  MaxBuffered = 64
  AgeMust = 15
  BulkSizes = {2, 3, 30, 49, 50, 51, 70}
  TickSizes = {1, 9, 11, 15, 30, 86403}
  MaxIssued = 100000
  MaxTime = 100000000
SPECIFICATION GenSpec
INVARIANT Emit
CHECK_DEADLOCK FALSE
"""
JUDGE = """CONSTANTS
  MaxBuffered = 64
  AgeMust = 15
SPECIFICATION Spec
INVARIANT Verdict
CHECK_DEADLOCK FALSE
"""
NOTE = {
    "orphan-events": "events survive whose bucket row does not",
    "not-a-prefix": "the reopened file is not the effect of a prefix (in issue order) of the writes performed, or the durable prefix shrank",
    "bucket-deletion-split": "the lazily-committing store made half of a bucket deletion durable",
    "bucket-op-not-durable": "a bucket create/update/delete had returned but is not in the file",
    "completed-op-not-durable": "auto-committing store: a completed operation is not in the file",
    "too-many-buffered": "more than 64 (a few dozen, about 50) completed event writes are missing from the file",
    "old-write-not-flushed": "an event write issued >= 15 s after the previous flush had returned without being durable",
}


def relevant(prop, clause):
    return (clause == "old-write-not-flushed") == (prop == "C18")


def model_phase(rep, tier):
    q = tier == "quick"
    sizes = dict(bulk="30, 51" if q else "2, 30, 49, 51", ticks="9, 15" if q else "1, 9, 15", maxi=120 if q else 170, maxt=33 if q else 40)
    res = tlc.model_check("AwDurable", MC % dict(dc="TRUE", rev="FALSE", mig="TRUE", bo="TRUE", invs=ALL_INVS, **sizes), tag="mc_dur", timeout=2400)
    rep.add_model(res, "commit-policy design layer (counter > 50 or age > 10 s, deletes counted) satisfies the property layer "
                       "(BufferedBounded 64, BucketOpsDurable, AgeBound 15 s, CounterExact, DurableMonotone) for all histories within the bound (incl. operations that raise, crashes)")
    # negative controls: the same text with the pinned tree's knobs must be refuted (the properties are not vacuous)
    neg = {}
    small = MC.replace("Threshold = 50", "Threshold = 5").replace("MaxBuffered = 64", "MaxBuffered = 7")
    for name, dc, rev, mig, bo, inv in (("deletes-uncounted", "FALSE", "FALSE", "TRUE", "TRUE", "INVARIANT BufferedBounded"),
                                        ("age-test-reversed", "TRUE", "TRUE", "TRUE", "TRUE", "INVARIANT AgeBound"),
                                        ("migration-not-committed", "TRUE", "FALSE", "FALSE", "TRUE", "INVARIANT BufferedBounded"),
                                        ("bulk-write-decides-per-statement", "TRUE", "FALSE", "TRUE", "FALSE", "INVARIANT AgeBound"),
                                        ("control-of-the-control", "TRUE", "FALSE", "TRUE", "TRUE", "INVARIANT BufferedBounded\nINVARIANT AgeBound")):
        r = tlc.model_check("AwDurable", small % dict(dc=dc, rev=rev, mig=mig, bo=bo, invs=inv, bulk="2, 5", ticks="9, 15", maxi=24, maxt=33),
                            tag="mc_dur_neg", expect_ok=False, timeout=1200)
        if name == "control-of-the-control":
            if not r["ok"]:
                raise tlc.TLCFailure("scaled-down repaired design does not satisfy the property layer")
            continue
        if r["ok"]:
            raise tlc.TLCFailure("negative control %s was not refuted by TLC: the property layer is vacuous" % name)
        neg[name] = "refuted after %d states" % r["states"]
    rep.notes["negative_controls"] = neg


def apalache_phase(rep):
    """Unbounded safety of the commit counter: an inductive invariant discharged by Apalache (thorough tier)."""
    import shutil
    import subprocess
    obligations = [("Init => IndInv", "--init=Init --inv=IndInv --length=0"),
                   ("IndInv /\\ Next => IndInv'", "--init=IndInit --inv=IndInv --length=1"),
                   ("IndInv => BufferedBounded", "--init=IndInit --inv=BufferedBounded --length=0")]
    out_dir = common.scratch_dir("apalache")
    done = []
    for name, args in obligations:
        p = subprocess.run("apalache-mc check %s --out-dir=%s MC_AwDurableInd.tla" % (args, out_dir), shell=True, cwd=tlc.SPEC_DIR,
                           stdout=subprocess.PIPE, stderr=subprocess.STDOUT, text=True, timeout=1200)
        ok = "The outcome is: NoError" in p.stdout
        done.append({"obligation": name, "discharged": ok})
        if not ok:
            raise tlc.TLCFailure("Apalache did not discharge '%s':\n%s" % (name, p.stdout[-1500:]))
    shutil.rmtree(out_dir, ignore_errors=True)
    rep.notes["apalache_inductive_invariant"] = {"module": "spec/MC_AwDurableInd.tla", "obligations": done,
                                                  "meaning": "counter = issued - durable, 0 <= counter <= 50, hence at most 50 buffered writes at any operation boundary, for unbounded bulk sizes, clock values and history lengths"}


def gen_histories(tier, seed, rnd):
    from .. import durable
    nsim, nrand = (60, 90) if tier == "quick" else (1200, 2500)
    out = tlc.simulate("AwDurable", GEN, num=max(20, nsim // 4), depth=16, seed=seed, tag="gen_dur")
    beh, seen = [], set()
    for m in re.finditer(r'<<"BEHAVIOUR", "(.*)">>', out):
        s = m.group(1).replace('\\"', '"')
        if s not in seen:
            seen.add(s)
            beh.append(json.loads(s))
    if not beh:
        raise tlc.TLCFailure("AwDurable generator printed no behaviours:\n" + out[-1500:])
    rnd.shuffle(beh)
    hist = [("g%d" % i, durable.concretise(b, rnd)) for i, b in enumerate(beh[:nsim])]
    hist += [("r%d" % i, durable.concretise(durable.random_abstract(rnd), rnd)) for i in range(nrand)]
    return hist, len(beh[:nsim]), nrand


def canaries(traces, k=4):
    out = []
    for t in traces:
        if len(out) >= k:
            break
        for oi, o in enumerate(t["obs"]):
            big = [b for b in o["st"]["b"] if len(b["tags"]) >= 2]
            if big:
                t2 = copy.deepcopy(t)
                bb = [b for b in t2["obs"][oi]["st"]["b"] if len(b["tags"]) >= 2][0]
                bb["tags"] = bb["tags"][1:]        # the oldest surviving event vanishes, newer ones stay: not a prefix
                out.append(t2)
                break
    return out


def run(prop, tier, seed, replay=None):
    from .. import durable
    rep = common.Report(prop, tier, seed)
    rnd = random.Random(seed)
    if replay is None:
        model_phase(rep, tier)
        if tier == "thorough" and prop == "C06":
            apalache_phase(rep)
        hist, ngen, nrand = gen_histories(tier, seed, rnd)
        rep.notes.update(tlc_generated_histories=ngen, random_histories=nrand)
        if prop == "C06":
            # bucket-level operations on LARGE buckets (more than a thousand events): every statement of the deletion is a crash point
            big = []
            for i in range(1 if tier == "quick" else 4):
                n = 1100 if tier == "quick" else rnd.choice([1100, 1500, 2300])
                big.append(("big%d" % i, [{"op": "create", "b": "A", "m": "m1"}, {"op": "insert_many", "b": "A", "n": n}, {"op": rnd.choice(["get1", "count"]), "b": "A"},
                                          {"op": "create", "b": "B", "m": "m2"}, {"op": "insert", "b": "B"}, {"op": "delete_bucket", "b": "A"}, {"op": "insert", "b": "B"}]))
            hist += big
            rep.notes["large_bucket_histories"] = len(big)
            fat = [("fat%d" % i, durable.concretise(durable.fat_abstract(rnd), rnd)) for i in range(2 if tier == "quick" else 12)]
            hist += fat
            rep.notes["large_payload_histories"] = len(fat)
        backends = ("sqlite", "peewee")
    else:
        hist = [("replay", replay["history"])]
        backends = (replay["backend"],)
    runs = durable.run_batch(hist, seed, backends=backends, nkills=2 if tier == "quick" else 8)
    traces = [r["trace"] for r in runs]
    can = canaries(traces) if replay is None else []
    # C06 is judged with the age clause switched off (AgeMust out of reach) so that only C06's clauses can reject;
    # C18 is judged with everything on and reports the traces that get stuck on the age clause
    cfg = JUDGE if prop == "C18" else JUDGE.replace("AgeMust = 15", "AgeMust = 1000000000")
    acc, rej, stats = tlc.judge("AwDurableTrace", cfg, traces + can, tag="judge_" + prop, chunk=400, heap="10g", existential=True)
    rep.add_judge_stats(stats)
    nreal = len(runs)
    for ci in range(nreal, nreal + len(can)):
        if ci in acc:
            raise tlc.TLCFailure("canary trace (non-prefix survivor set) was accepted by the judge")
    rep.notes["canaries_rejected"] = len(can)
    ncrash = sum(len(t["obs"]) for t in traces)
    nkill = sum(1 for t in traces for o in t["obs"] if o["how"] == "sigkill")
    per = {}
    for r in runs:
        per[r["backend"]] = per.get(r["backend"], 0) + 1
    rep.cov.update(traces_validated_against_impl=nreal, evaluations=ncrash,
                   distinct_nontrivial=len({(r["backend"], json.dumps(o["st"], sort_keys=True), o["op"], repr(r["history"])) for r in runs for o in r["trace"]["obs"] if o["st"]["b"]}),
                   rule="histories = TLC simulation of AwDurable (op kinds, bulk sizes, clock ticks) + random histories, concretised over 2 buckets; every SQL statement is a crash point "
                        "(database files as on disk at that instant, reopened) plus SIGKILL re-runs at sampled statements and one exit-without-shutdown; evaluations = crash-point observations judged; "
                        "non-trivial = the surviving file holds at least one bucket")
    rep.notes.update(histories_per_backend=per, sigkill_observations=nkill, statement_snapshots=ncrash - nkill - nreal)
    for r in runs[:2]:
        rep.sample({"backend": r["backend"], "history": r["history"][:8], "observations": [{k: v for k, v in o.items()} for o in r["trace"]["obs"][:3]]})
    skipped = {}
    for i in sorted(rej):
        if i >= nreal:
            continue
        r = runs[i]
        seen = set()
        lmax = max((x.get("l") or 0) for x in rej[i])
        for info in [x for x in rej[i] if (x.get("l") or 0) == lmax]:
            clause = info.get("clauses", "").strip('"')
            l = info.get("l")
            o = r["trace"]["obs"][l - 1] if l else {}
            opi = o.get("op")
            opname = r["trace"]["ops"][min(opi, len(r["trace"]["ops"]) - 1)]["op"] if opi is not None else None
            if not relevant(prop, clause):
                skipped[clause] = skipped.get(clause, 0) + 1
                continue
            if (clause, opname) in seen:
                continue
            seen.add((clause, opname))
            done = r["trace"]["ops"][opi - 1]["op"] if opi else None
            sig = dict(backend=r["backend"], clause=clause, during=opname, after=done)
            text = "%s: crash at statement %s (%s, during op #%s %s, after %s returned): %s" % (
                r["backend"], o.get("k"), o.get("how"), opi, opname, done, NOTE.get(clause, clause))
            rep.violation(sig, text, dict(backend=r["backend"], history=r["history"], observation=o, clause=clause))
    rep.notes["rejections_belonging_to_other_property"] = skipped
    rep.assumptions += ["crash = process death (SIGKILL / exit without shutdown); power loss and torn pages are out of scope",
                        "a crash point's file state is taken as the database, WAL and rollback-journal files as they are on disk when the statement is about to run (copied), cross-checked by real SIGKILL re-runs",
                        "virtual clock: datetime.now / time.time / time.monotonic are shifted by the history's ticks; MaxBuffered = 64, AgeMust = 15 s are the property layer's reading of 'about 50' and 'about ten seconds'",
                        "bulk calls are either all inserts or all upserts (no order is assumed between the two groups of a mixed bulk)"]
    return rep.finish()
