"""C09 / C10 / C15: interval transforms judged by spec/AwIntervals.tla; design-layer transcriptions model-checked."""
import copy
import random

from .. import common, intervals, tlc

MC = """CONSTANTS
  TMax = %(tmax)d
  DMax = %(dmax)d
  N = %(n)d
  Labels = {"x", "y"}
  Pulses = {0, 1, 2}
SPECIFICATION Spec
%(invs)s
CHECK_DEADLOCK FALSE
"""
INVS = {"C09": "INVARIANT DesignIntersectOK\nINVARIANT DesignUnionOK", "C10": "INVARIANT DesignFloodOK", "C15": "INVARIANT DesignUNOOK"}
WHAT = {"C09": "transcriptions of the two-pointer sweep (with Timeslot.intersection) and of period_union's sorted merge satisfy IntersectClause / UnionClause",
        "C10": "transcription of flood's pairwise walk with neighbour mutation satisfies FloodClause (chains of up to N events)",
        "C15": "transcription of union_no_overlap's two-index merge with _split_event satisfies UnionNoOverlapClause"}
JUDGE = """SPECIFICATION Spec
INVARIANT Verdict
CHECK_DEADLOCK FALSE
"""
OPS = {"C09": ("intersect", "union"), "C10": ("flood",), "C15": ("uno",)}


def chunked(seq, n):
    for i in range(0, len(seq), n):
        yield seq[i:i + n]


def gen_cases(prop, tier, rnd):
    q = tier == "quick"
    cases = []
    if prop == "C09":
        L = intervals.strict_lists(4 if q else 5, 2 if q else 3, 2)
        pairs = [(a, b) for a in L for b in L]
        if q:
            rnd.shuffle(pairs)
            pairs = pairs[:9000]
        cases += [("intersect", a, b, rnd.random() < 0.5) for a, b in pairs]
        L3 = intervals.strict_lists(5, 3, 3)
        for _ in range(3000 if q else 60000):
            cases.append(("intersect", rnd.choice(L3), rnd.choice(L3), True))
        for _ in range(400 if q else 8000):
            a, b = spanning(rnd)
            cases.append(("intersect", a, b, True) if rnd.random() < 0.5 else ("intersect", b, a, True))
        U = intervals.any_lists(3, 2, 2)
        up = [(a, b) for a in U for b in U]
        rnd.shuffle(up)
        cases += [("union", a, b) for a, b in up[:(6000 if q else 60000)]]
        U3 = intervals.any_lists(4, 3, 3)
        for _ in range(2000 if q else 40000):
            cases.append(("union", rnd.choice(U3), rnd.choice(U3)))
    elif prop == "C10":
        L = [l for l in intervals.strict_lists(6 if q else 7, 2, 3 if q else 4) if len({e[0] for e in l}) == len(l)]
        if q:
            rnd.shuffle(L)
            L = L[:5000]
        for l in L:
            for p in ((rnd.choice([0, 1, 2]),) if q else (0, 1, 2)):
                cases.append(("flood", l, p, rnd.random() < 0.5))
        L5 = [l for l in intervals.strict_lists(9, 2, 4) if len(l) == 4 and len({e[0] for e in l}) == 4]
        for _ in range(2000 if q else 40000):
            cases.append(("flood", rnd.choice(L5), rnd.choice([0, 1, 2, 3]), True))
    else:
        L = intervals.strict_lists(4 if q else 5, 2 if q else 3, 2, labels=("x",))
        pairs = [(a, b) for a in L for b in L]
        if q:
            rnd.shuffle(pairs)
            pairs = pairs[:9000]
        cases += [("uno", a, b) for a, b in pairs]
        L3 = intervals.strict_lists(6, 3, 3, labels=("x",))
        for _ in range(4000 if q else 80000):
            cases.append(("uno", rnd.choice(L3), rnd.choice(L3)))
        for _ in range(600 if q else 12000):
            a, b = spanning(rnd)
            cases.append(("uno", a, b) if rnd.random() < 0.5 else ("uno", b, a))
    return cases


def spanning(rnd):
    """many short events (some zero-length, some touching) and a few long ones spanning several of them"""
    k = rnd.randint(3, 7)
    short, t = [], rnd.choice([0, 1, 2])
    for _ in range(k):
        u = rnd.choice([0, 1, 1, 2])
        short.append((t, u, "x"))
        t += u + rnd.choice([0, 1, 2])
    longs, s0 = [], rnd.choice([0, 0, 1, short[0][0] + 1])
    for _ in range(rnd.choice([1, 1, 2])):
        ln = rnd.randint(2, max(3, t - s0 + 2))
        longs.append((s0, ln, "y"))
        s0 += ln + rnd.choice([0, 1])
    return short, longs


def run(prop, tier, seed, replay=None):
    rep = common.Report(prop, tier, seed)
    rnd = random.Random(seed)
    q = tier == "quick"
    if replay is None:
        res = tlc.model_check("MC_AwIntervals", MC % dict(tmax=3 if q else 4, dmax=2 if q else 3, n=2, invs=INVS[prop]), tag="mc_iv_" + prop, heap="8g")
        rep.add_model(res, WHAT[prop] + " for every pair of time-sorted lists of <= 2 events on the grid (and every pulsetime)")
        if not q:
            res = tlc.model_check("MC_AwIntervals", MC % dict(tmax=4, dmax=1, n=3, invs=INVS[prop]), tag="mc_iv3_" + prop, heap="10g", timeout=3000)
            rep.add_model(res, WHAT[prop] + " for lists of <= 3 events (durations 0..1)")
        cases = gen_cases(prop, tier, rnd)
    else:
        cases = [tuple(replay["case"])]
    parts = [(seed * 1000 + i, c) for i, c in enumerate(chunked(cases, 500))]
    traces = common.pmap(intervals.run_cases, parts)
    ncan = 0
    if replay is None:
        for t in traces[:6]:
            for r in t:
                if r.get("out") and r["out"][0]["dur"] > 0:
                    bad = copy.deepcopy(r)
                    bad["out"][0]["dur"] += 1
                    traces.append([copy.deepcopy(r)])      # control
                    traces.append([bad])
                    ncan += 1
                    break
    acc, rej, stats = tlc.judge("AwIntervalsTrace", JUDGE, traces, tag="judge_" + prop, chunk=60)
    rep.add_judge_stats(stats)
    nreal = len(parts)
    rep.notes["canaries_rejected"] = tlc.check_canary_pairs(acc, nreal, ncan, "output piece lengthened")
    byop = {}
    for c in cases:
        byop[c[0]] = byop.get(c[0], 0) + 1
    rep.cov.update(traces_validated_against_impl=nreal, evaluations=len(cases), distinct_nontrivial=len({repr(c[:3]) for c in cases if c[1]}),
                   rule="inputs = time-sorted lists without internal overlap on a tick grid (zero-length, touching, nested across lists), all pairs of <= 2-event lists (quick: a random subset) plus random "
                        "3-4 event lists, shuffled where the function accepts any order; arbitrary overlapping lists for period_union; concretised at 1/10/1000 ms per tick; distinct by input, non-trivial = first list non-empty")
    rep.notes["calls_by_function"] = byop
    rep.sample(traces[0][:2])
    for i in sorted(rej):
        if i >= nreal:
            continue
        for info in rej[i][:4]:
            r = traces[i][info["l"] - 1]
            clause = info["clauses"].strip('"')
            case = cases[i * 500 + info["l"] - 1]
            if r["op"] == "raised":
                rep.violation(dict(op=r["fn"], clause=clause), "%s raised %s on %s" % (r["fn"], r["exc"], r["inp"]), dict(case=list(case), record=r))
                continue
            rep.violation(dict(op=r["op"], clause=clause), "%s(%s%s%s) -> %s: %s" % (r["op"], short(r["A"]), ", " + short(r["B"]) if "B" in r else "", ", P=%s" % r["P"] if "P" in r else "", short(r["out"]), clause),
                          dict(case=list(case), record=r))
    rep.assumptions += ["an event occupies [ts, ts+dur]; 'non-overlapping' inputs: each event ends before or exactly when the next starts (zero-length events in gaps or on edges)",
                        "measure is counted in unit cells, closed point sets in doubled coordinates (period_union)"]
    return rep.finish()


def short(evs):
    return "[" + " ".join("%s:%d+%d" % (e["d"], e["ts"], e["dur"]) for e in evs) + "]"
