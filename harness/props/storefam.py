"""C02 / C04 / C05: operation histories on the real Datastore judged against spec/AwStore.tla."""
import copy
import random

from .. import common, store, tlc

MC_EVENTS_QUICK = """CONSTANTS
  Buckets = {"A", "B"}
  Ticks = {0, 1}
  Durs = {0, 1}
  Datas = {"d1"}
  Ids = {0, 1, 2}
  Strs = {"s1"}
  MDatas = {"m0", "m1"}
  MaxEvs = 2
  Metas <- MetasE
  Fields <- FieldsE
  Ops <- MCOps
SPECIFICATION Spec
INVARIANT TypeOK
INVARIANT IdsUniquePerBucket
PROPERTY Frame
PROPERTY CreatedEmpty
PROPERTY CreatedStable
"""
MC_EVENTS_THOROUGH = MC_EVENTS_QUICK.replace('Datas = {"d1"}', 'Datas = {"d1", "d2"}')
MC_LIFECYCLE = """CONSTANTS
  Buckets = {"A", "B"}
  Ticks = {0, 1}
  Durs = {0}
  Datas = {"d1"}
  Ids = {0, 1}
  Strs = {"s1", "s2"}
  MDatas = {"m0", "m1"}
  MaxEvs = 1
  Metas <- MetasL
  Fields <- FieldsL
  Ops <- MCOps
SPECIFICATION Spec
INVARIANT TypeOK
INVARIANT IdsUniquePerBucket
PROPERTY Frame
PROPERTY CreatedEmpty
PROPERTY CreatedStable
"""
GEN_CFG = """CONSTANTS
  Buckets = {%(buckets)s}
  Ticks = {0, 1, 2}
  Durs = {0, 1, 2}
  Datas = {"d1", "d2"}
  Ids = {0, 1, 2, 3}
  Strs = {"s1", "s2"}
  MDatas = {"m0", "m1", "m2"}
  MaxEvs = 3
  Depth = %(depth)d
SPECIFICATION GSpec
INVARIANT Emit
CHECK_DEADLOCK FALSE
"""
JUDGE_CFG = """CONSTANTS
  Buckets = {"A", "B", "C"}
  Ticks = {0}
  Durs = {0}
  Datas = {"d1"}
  Ids = {0}
  Strs = {"s1"}
  MDatas = {"m0"}
  MaxEvs = 1
SPECIFICATION TSpec
INVARIANT Verdict
CHECK_DEADLOCK FALSE
"""

DESIGN_CFG = """CONSTANTS
  BucketNames = {"A", "B"}
  Ticks = {0, 1}
  Durs = {0, 1}
  Datas = {%(datas)s}
  MaxRows = %(rows)d
  ReplaceLastScoped = %(rl)s
  ReplaceScoped = %(rs)s
  OrderByStart = %(ob)s
SPECIFICATION Spec
CONSTRAINT Bound
INVARIANT IdsGloballyUnique
PROPERTY Refines
PROPERTY FrameOK
CHECK_DEADLOCK FALSE
"""


PEEWEE_CFG = """CONSTANTS
  BucketNames = {"A", "B"}
  Ticks = {0, 1}
  Durs = {0, 1}
  Datas = {"d1"}
  MaxRows = %(rows)d
  UpsertScoped = %(us)s
  DeleteEventsWithBucket = %(de)s
  RefreshKeysOnDelete = %(rk)s
SPECIFICATION Spec
CONSTRAINT Bound
INVARIANT IdsGloballyUnique
INVARIANT NoOrphans
INVARIANT CacheIsTable
INVARIANT KeysDistinct
PROPERTY Refines
PROPERTY FrameOK
CHECK_DEADLOCK FALSE
"""


WRAPPER_CFG = """CONSTANTS
  BucketNames = {"A", "B", "C"}
  DropHandleOnDelete = %s
  LookupAsksStorage = %s
SPECIFICATION Spec
INVARIANT CacheSound
PROPERTY LookupOK
PROPERTY CreateOK
PROPERTY FailedCallsChangeNothing
CHECK_DEADLOCK FALSE
"""


def wrapper_design(rep):
    """the Datastore wrapper's handle cache in front of the storage's bucket table (C05 on the design)"""
    res = tlc.model_check("AwDatastoreDesign", WRAPPER_CFG % ("TRUE", "TRUE"), tag="mc_wrapper")
    rep.add_model(res, "AwDatastoreDesign (bucket_instances cache in front of the storage's bucket table; create / delete / lookup / update with the statements in the code's order, failing calls included): "
                       "the cache never names a missing bucket, lookup raises KeyError exactly for missing buckets, failed calls change nothing; 3 bucket ids, all histories")
    neg = {}
    for name, a, b in (("delete_bucket keeps the cached handle", "FALSE", "TRUE"), ("a cache miss does not consult the storage", "TRUE", "FALSE")):
        r = tlc.model_check("AwDatastoreDesign", WRAPPER_CFG % (a, b), tag="mc_wrapper_neg", expect_ok=False)
        if r["ok"]:
            raise tlc.TLCFailure("negative control '%s' was not refuted by TLC" % name)
        neg["wrapper: " + name] = "refuted after %d states" % r["states"]
    rep.notes["design_layer_negative_controls"] = neg


WRAPPER_JUDGE = """CONSTANTS
  BucketNames = {"A", "B", "C"}
  DropHandleOnDelete = TRUE
  LookupAsksStorage = TRUE
SPECIFICATION TSpec
INVARIANT Verdict
CHECK_DEADLOCK FALSE
"""


def wrapper_binding(rep, tier, seed, rnd, replay=None):
    """every edge of AwDatastoreDesign's state graph (as TLC enumerates it) and random walks, replayed on the real wrapper"""
    import copy
    from .. import wrapper
    if replay is None:
        edges, res = wrapper.edges()
        rep.add_model(res, "AwDatastoreEdges: the complete state graph of the wrapper design, every transition printed as a replayable edge (%d distinct edges)" % len(edges))
        jobs = [("edge", list(e)) for e in edges] + wrapper.random_walks(rnd, 200 if tier == "quick" else 3000)
        runs = wrapper.run_jobs(jobs, seed)
    else:
        edges, jobs = [], [(replay["mode"], replay["payload"])]
        runs = wrapper.run_jobs(jobs, seed, backends=[replay["backend"]])
    traces = [r["trace"] for r in runs]
    ncan = 0
    for r in (runs if replay is None else []):
        if r["mode"] == "edge" and r["payload"][2] == "delete" and r["payload"][3] in r["payload"][0] and ncan < 2:
            bad = copy.deepcopy(r["trace"])
            for rec in bad[-3:]:
                if rec["b"] == r["payload"][3]:
                    rec["res"] = "handle"       # the deleted bucket still answers a lookup
            traces.append(bad)
            ncan += 1
    acc, rej, stats = tlc.judge("AwDatastoreTrace", WRAPPER_JUDGE, traces, tag="judge_wrapper", chunk=400)
    rep.add_judge_stats(stats)
    for ci in range(len(runs), len(runs) + ncan):
        if ci in acc:
            raise tlc.TLCFailure("canary (deleted bucket still answers a lookup) accepted by the wrapper judge")
    if ncan == 0 and replay is None:
        raise tlc.TLCFailure("no canary could be built for the wrapper judge")
    rep.notes["wrapper_edges_replayed"] = {"edges": len(edges), "walks": len(jobs) - len(edges), "runs": len(runs), "calls": sum(len(t) for t in traces[:len(runs)]), "canaries_rejected": ncan}
    for i in sorted(rej):
        if i >= len(runs):
            continue
        r = runs[i]
        for info in rej[i][:3]:
            rec = r["trace"][info["l"] - 1]
            clause = info["clauses"].strip('"')
            rep.violation(dict(backend=r["backend"], op=rec["op"], clause=clause),
                          "%s: wrapper call %s(%s) with bucket table %s -> %s, table %s (handle cache %s -> %s): %s" % (
                              r["backend"], rec["op"], rec["b"], rec["pre"]["stored"], rec["res"], rec["stored"], rec["pre"]["inst"], rec["inst"], clause),
                          dict(backend=r["backend"], wrapper=True, mode=r["mode"], payload=r["payload"], record=rec, clause=clause))
    return len(runs)


def design_phase(rep, tier, prop):
    """SQL-level design layer of the sqlite backend refines AwStore; the pinned tree's statements are refuted."""
    q = tier == "quick"
    size = dict(datas='"d1", "d2"', rows=2) if q else dict(datas='"d1"', rows=3)
    res = tlc.model_check("AwSqliteDesign", DESIGN_CFG % dict(rl="TRUE", rs="TRUE", ob="TRUE", **size), tag="mc_sqldesign", heap="8g")
    rep.add_model(res, "AwSqliteDesign (global event ids, bucketrow column, the SQL row selections of replace_last / replace / get_events / delete / delete_bucket) refines AwStore's step relation "
                       "(Refines) and changes no other bucket (FrameOK), %d rows, 2 buckets" % size["rows"])
    neg = {}
    for name, rl, rs, ob in (("replace_last selects max(endtime) without bucket condition", "FALSE", "TRUE", "TRUE"),
                             ("replace re-parents a row of another bucket", "TRUE", "FALSE", "TRUE"),
                             ("get_events ordered by end time", "TRUE", "TRUE", "FALSE")):
        r = tlc.model_check("AwSqliteDesign", DESIGN_CFG % dict(rl=rl, rs=rs, ob=ob, datas='"d1"', rows=2), tag="mc_sqldesign_neg", expect_ok=False)
        if r["ok"]:
            raise tlc.TLCFailure("negative control '%s' was not refuted by TLC" % name)
        neg[name] = "refuted after %d states" % r["states"]
    # the ORM backend: tables without AUTOINCREMENT (keys and ids come back), the bucket_keys cache, upserts through replace()
    res = tlc.model_check("AwPeeweeDesign", PEEWEE_CFG % dict(rows=2 if q else 3, us="TRUE", de="TRUE", rk="TRUE"), tag="mc_pwdesign", heap="8g")
    rep.add_model(res, "AwPeeweeDesign (bucketmodel / eventmodel rowids handed out as max + 1 and reused, bucket_keys cache, replace / upsert / bulk / replace_last / delete / delete_bucket "
                       "as the ORM issues them) refines AwStore's step relation (Refines), changes no other bucket (FrameOK), leaves no event row without its bucket row although keys are reused "
                       "(NoOrphans), cache = table at every return, %d rows, 2 buckets" % (2 if q else 3))
    for name, us, de, rk in (("peewee: id-carrying event saved without bucket condition (pinned insert_one)", "FALSE", "TRUE", "TRUE"),
                             ("peewee: delete_bucket leaves the event rows (adopted by the next bucket with the reused key)", "TRUE", "FALSE", "TRUE"),
                             ("peewee: delete_bucket does not refresh bucket_keys", "TRUE", "TRUE", "FALSE")):
        r = tlc.model_check("AwPeeweeDesign", PEEWEE_CFG % dict(rows=2, us=us, de=de, rk=rk), tag="mc_pwdesign_neg", expect_ok=False)
        if r["ok"]:
            raise tlc.TLCFailure("negative control '%s' was not refuted by TLC" % name)
        neg[name] = "refuted after %d states" % r["states"]
    if prop != "C02":
        rep.notes["design_layer_negative_controls"] = neg
        return
    # the in-memory backend: Python list per bucket, max+1 ids, stable sort + reverse, replace_last = sorted()[-1]
    MEM = """CONSTANTS
  BucketNames = {"A"}
  Ticks = {0, 1}
  Durs = {0, 1}
  Datas = {%s}
  MaxLen = 3
  IdIsMaxPlusOne = %s
  ReplaceLastSorted = %s
SPECIFICATION Spec
INVARIANT IdsUniqueInList
PROPERTY Refines
CHECK_DEADLOCK FALSE
"""
    res = tlc.model_check("AwMemoryDesign", MEM % ('"d1"' if q else '"d1", "d2"', "TRUE", "TRUE"), tag="mc_memdesign", heap="8g")
    rep.add_model(res, "AwMemoryDesign (list per bucket, ids = max+1 with reuse of dead ids, stable sort by timestamp reversed, replace_last = sorted()[-1]) refines AwStore; "
                       "the limit-1 read and replace_last agree under timestamp ties; ids stay unique")
    for name, a, b in (("id = len(list)", "FALSE", "TRUE"), ("replace_last = max(key=timestamp) (first of several newest)", "TRUE", "FALSE")):
        r = tlc.model_check("AwMemoryDesign", MEM % ('"d1"', a, b), tag="mc_memdesign_neg", expect_ok=False)
        if r["ok"]:
            raise tlc.TLCFailure("negative control '%s' was not refuted by TLC" % name)
        neg["memory: " + name] = "refuted after %d states" % r["states"]
    rep.notes["design_layer_negative_controls"] = neg


EDGE_CFG = {
    # event-rich instance (C02 / C04): 361 store contents, ~13 000 transitions
    "events": """CONSTANTS
  Buckets = {"A", "B"}
  Ticks = {0, 1}
  Durs = {0}
  Datas = {"d1"}
  Ids = {0, 1}
  Strs = {"s1"}
  MDatas = {"m0", "m1"}
  MaxEvs = 2
  Metas <- MetasE
  Fields <- FieldsE
  Ops <- MCOps
SPECIFICATION ESpec
VIEW EView
ACTION_CONSTRAINT PrintEdge
CHECK_DEADLOCK FALSE
""",
    # metadata-rich instance (C05): one bucket id through every combination of creation metadata, updates, deletion, re-creation
    "lifecycle": """CONSTANTS
  Buckets = {"A"}
  Ticks = {0, 1}
  Durs = {0}
  Datas = {"d1"}
  Ids = {0}
  Strs = {"s1", "s2"}
  MDatas = {"m0", "m1"}
  MaxEvs = 1
  Metas <- MetasL
  Fields <- FieldsL
  Ops <- MCOps
SPECIFICATION ESpec
VIEW EView
ACTION_CONSTRAINT PrintEdge
CHECK_DEADLOCK FALSE
""",
}


def model_edges(rep, profile, tier, seed):
    """Every transition of a bounded AwStore instance, as TLC enumerates it, turned into a short history: build the
    source state (create + inserts), then the operation.  quick replays a fifth of the event instance's edges (which
    fifth rotates with the seed), thorough all of them."""
    import json
    import re
    inst = "lifecycle" if profile == "lifecycle" else "events"
    res = tlc.model_check("AwStoreEdges", EDGE_CFG[inst], workers=1, tag="edges_" + inst, heap="8g")
    seen, hist = set(), []
    for m in re.finditer(r'<<"EDGE",\s*"((?:[^"\\]|\\.)*)">>', res["out"]):
        d = json.loads(json.loads('"' + m.group(1) + '"'))
        o = dict(d["o"])
        if o["op"] == "foreign":
            if profile != "frame":
                continue
            o.pop("post", None)
        key = json.dumps([d["s"], o], sort_keys=True)
        if key in seen:
            continue
        seen.add(key)
        ops = []
        for b in sorted(d["s"]):
            st = d["s"][b]
            if not st["ex"]:
                continue
            meta = {k: st[k] for k in ("type", "client", "host", "name", "data", "created")}
            ops.append({"op": "create", "b": b, "meta": meta, "nm": st["name"]})
            for e in sorted(st["evs"], key=lambda x: x["id"]):
                ops.append({"op": "insert", "b": b, "ev": e})
        ops.append(o)
        hist.append(ops)
    if not hist:
        raise tlc.TLCFailure("AwStoreEdges printed no edges:\n" + res["out"][-1500:])
    total = len(hist)
    if tier == "quick" and inst == "events":
        hist = [h for i, h in enumerate(hist) if i % 5 == seed % 5]
    rep.add_model(res, "AwStoreEdges (%s instance): complete state graph, %d distinct transitions printed as replayable edges, %d replayed in this run" % (inst, total, len(hist)))
    rep.notes["model_edges"] = {"instance": inst, "transitions": total, "replayed": len(hist)}
    return [("e%d" % i, store.restrict(store.from_model_ops(h), profile == "frame")) for i, h in enumerate(hist)]


PROFILE = {"C02": "history", "C04": "frame", "C05": "lifecycle"}
SIZES = {  # (tlc simulated behaviours, depth, random histories)
    "quick": (400, 14, 500),
    "thorough": (6000, 22, 9000),
}
CLAUSE_NOTE = {
    "other-bucket-changed": "a bucket other than the addressed one reads back differently after the call",
    "outcome": "the call raised (or failed to raise) against the documented outcome",
    "precondition": "the call is not enabled in the reference model (e.g. replace-last target is not the limit-1 event, id not fresh)",
    "target-bucket-state": "the addressed bucket does not hold what the reference list model holds after the call",
    "bulk-values": "the events added by a bulk insert are not the inserted values",
    "reads-disagree": "listing, lookup-by-id, count and bucket listing disagree with each other / order is not newest-first",
    "listing-disagrees": "the bucket listing shows other metadata than describing the bucket",
    "absent-bucket-listed": "a bucket that cannot be looked up is still listed",
    "batch-other-bucket-changed": "after a run of calls without intermediate reads, a bucket that none of them addressed reads back differently",
    "batch-other-bucket-changed-by-last-call": "a run of calls without intermediate reads ended with a call addressed to another bucket; the control execution without that call holds what the reference model holds, with it a bucket it did not address does not",
    "batch-other-bucket-changed-by-out-of-contract-call": "a run of calls without intermediate reads ended with a call carrying an out-of-contract id; afterwards a bucket other than the one that call addressed does not hold what the earlier calls left there",
    "batch-outcome": "a call inside a run without intermediate reads raised (or failed to raise) against the documented outcome",
    "batch-precondition": "a call inside a run without intermediate reads is not enabled in the reference model",
    "batch-final-state": "after a run of calls without intermediate reads the store does not hold what the reference model holds (an effect was lost, duplicated or leaked)",
    "model-invariant": "ids not unique / frame / created-empty invariant broken",
}


def repo_test_traces():
    """Run the repository's own datastore tests under the recorder plugin (harness/pytest_recorder.py) and return their traces."""
    import json
    import os
    import subprocess
    out = os.path.join(common.scratch(), "repo_tests.json")
    env = dict(os.environ, AW_CORE_VERIF="1", AW_CORE_VERIF_OUT=out, PYTHONPATH=common.VERIF + os.pathsep + common.REPO)
    p = subprocess.run(["/venv/bin/python", "-m", "pytest", "-q", "-p", "no:cacheprovider", "-p", "harness.pytest_recorder", "--timeout=900",
                        os.path.join(common.REPO, "tests", "test_datastore.py")], cwd=common.REPO, env=env, stdout=subprocess.PIPE, stderr=subprocess.STDOUT, text=True)
    if not os.path.exists(out):
        raise tlc.TLCFailure("recording the repository's tests produced no traces:\n" + p.stdout[-1500:])
    with open(out) as f:
        recs = json.load(f)
    os.remove(out)
    tail = p.stdout.strip().splitlines()[-1] if p.stdout.strip() else ""
    return recs, tail


def make_canaries(traces, rnd, k=6):
    """Real traces with one recorded field corrupted: the judge must reject every one of them."""
    out = []
    cands = [t for t in traces if len(t) >= 3 and any(r["st"][b]["ex"] and r["st"][b]["evs"] for r in t for b in "ABC")]
    rnd.shuffle(cands)
    for t in cands[:k * 3]:
        t2 = copy.deepcopy(t)
        idx = [i for i, r in enumerate(t2) for b in "ABC" if r["st"][b]["ex"] and r["st"][b]["evs"]]
        i = rnd.choice(idx)
        r = t2[i]
        b = rnd.choice([b for b in "ABC" if r["st"][b]["ex"] and r["st"][b]["evs"]])
        mode = len(out) % 3
        if mode == 0:      # an event silently changes duration
            r["st"][b]["evs"][0]["dur"] += 1
        elif mode == 1:    # an event disappears
            r["st"][b]["evs"].pop()
        else:              # metadata changes without an update
            r["st"][b]["type"] = "sX"
        out.append(t2)
        if len(out) >= k:
            break
    return out


LIFECYCLE_OPS = ("create", "update", "delete_bucket", "absent")


def relevant(prop, op, clause, rec=None):
    """Which rejections belong to which property (the judge is shared; each check reports its own)."""
    if op is None:
        return True                      # the trace could not be evaluated: never silently dropped
    if op == "batch" and clause.startswith("batch-"):
        kinds = {x["op"] for x in (rec or {}).get("ops", [])}
        if clause in ("batch-other-bucket-changed", "batch-other-bucket-changed-by-out-of-contract-call"):
            return prop in ("C04", "C02")
        if clause == "batch-other-bucket-changed-by-last-call":
            return prop == "C04"
        if prop == "C05":
            return bool(kinds & set(LIFECYCLE_OPS))
        if prop == "C02":
            return bool(kinds - set(LIFECYCLE_OPS))
        return False
    if prop == "C04":
        return clause == "other-bucket-changed"
    if prop == "C05":
        return (op in LIFECYCLE_OPS and clause not in ("other-bucket-changed", "reads-disagree")) \
            or clause in ("absent-bucket-listed", "listing-disagrees")
    # C02: the event operations against the reference list model (nothing else touched included), and the
    # mutual consistency of listing / lookup-by-id / count after any call
    return (op not in LIFECYCLE_OPS and op != "foreign") or clause == "reads-disagree"


def run(prop, tier, seed, replay=None):
    rep = common.Report(prop, tier, seed)
    rnd = random.Random(seed)
    nsim, depth, nrand = SIZES[tier]
    profile = PROFILE[prop]
    if replay is not None and replay.get("wrapper"):
        wrapper_binding(rep, tier, seed, rnd, replay)
        return rep.finish()
    # ---- 1. the reference model satisfies its own properties (bounded, exhaustive)
    if replay is None:
        res = tlc.model_check("MC_AwStore", MC_LIFECYCLE, tag="mc_life")
        rep.add_model(res, "AwStore lifecycle instance: 2 buckets, 2 metadata values per field, <=1 event; invariants TypeOK, IdsUniquePerBucket; action properties Frame, CreatedEmpty, CreatedStable")
        res = tlc.model_check("MC_AwStore", MC_EVENTS_QUICK if tier == "quick" else MC_EVENTS_THOROUGH, tag="mc_ev")
        rep.add_model(res, "AwStore event instance: 2 buckets, 3 ids, ticks {0,1}, durations {0,1}, <=2 events per bucket, all ops incl. bulk upsert and out-of-contract ids")
        if prop in ("C02", "C04"):
            design_phase(rep, tier, prop)
        if prop == "C05":
            wrapper_design(rep)
            wrapper_binding(rep, tier, seed, rnd)
    # ---- 2. behaviours: TLC simulation of AwStoreGen + random abstract histories
    behaviours = []
    if replay is not None:
        behaviours = [("replay", replay["ops"])]
        backends = [replay["backend"]]
    else:
        backends = store.BACKENDS
        buckets = '"A", "B"' if profile != "lifecycle" else '"A", "B", "C"'
        out = tlc.simulate("AwStoreGen", GEN_CFG % dict(buckets=buckets, depth=depth), num=nsim, depth=depth, seed=seed, tag="gen_" + prop)
        gen = store.parse_gen_output(out)
        if not gen:
            raise tlc.TLCFailure("AwStoreGen produced no behaviours:\n" + out[-2000:])
        for i, mops in enumerate(gen):
            ops = store.from_model_ops(mops)
            behaviours.append((("F%d" if profile == "frame" else "g%d") % i, store.restrict(ops, profile == "frame")))
        rep.notes["tlc_generated_behaviours"] = len(gen)
        prof = {"history": ["history", "ties"], "frame": ["frame", "ties"], "lifecycle": ["lifecycle", "mixed"]}[profile]
        for i in range(nrand):
            p = prof[i % len(prof)]
            ops = store.random_history(rnd, "mixed" if p == "frame" else p, maxlen=16 if tier == "quick" else 24)
            behaviours.append((("F%d" if profile == "frame" else "r%d") % i, store.restrict(ops, profile == "frame" or (profile == "lifecycle" and p == "mixed"))))
        rep.notes["random_histories"] = nrand
    # ---- 3. run on the real backends
    if replay is not None and replay.get("probe"):
        runs = store.run_probes([("P0", (replay["probe"][0], replay["probe"][1]))], seed, backends=backends)
    else:
        runs = store.run_batch(behaviours, seed, backends=backends)
    if replay is None:
        # ... and one implementation test per transition of the bounded model (no batching: every edge is a judged step)
        runs += store.run_batch(model_edges(rep, profile, tier, seed), seed + 7, backends=backends, batch_prob=0.0)
        if profile == "frame":
            # frame probes: writes without reads, then one call addressed to another bucket, with a control execution
            probes = [("P%d" % i, store.random_probe(rnd)) for i in range(300 if tier == "quick" else 4000)]
            pr = store.run_probes(probes, seed + 11, backends=backends)
            rep.notes["frame_probes"] = {"generated": len(probes), "executed_with_control": len(pr)}
            runs += pr
    if replay is None:
        # ... and the executions of the repository's own datastore tests, judged on full state instead of by their assertions
        recs, tail = repo_test_traces()
        for i, r in enumerate(recs):
            runs.append({"backend": {"MemoryStorage": "memory", "SqliteStorage": "sqlite", "PeeweeStorage": "peewee"}.get(r["backend"], r["backend"]),
                         "key": "repo-test-%d" % i, "ops": [{k: v for k, v in x.items() if k != "st"} for x in r["trace"]], "trace": r["trace"],
                         "base": "recorded", "scale": 1})
        rep.notes["repository_test_traces"] = {"traces": len(recs), "recorded_calls": sum(len(r["trace"]) for r in recs), "pytest": tail}
    traces = [r["trace"] for r in runs]
    ncan = 0
    if replay is None:
        can = make_canaries(traces, rnd)
        ncan = len(can)
        traces = traces + can
    # ---- 4. judge
    acc, rej, stats = tlc.judge("AwStoreTrace", JUDGE_CFG, traces, tag="judge_" + prop, chunk=4000)
    rep.add_judge_stats(stats)
    nreal = len(runs)
    for ci in range(nreal, nreal + ncan):
        if ci in acc:
            raise tlc.TLCFailure("canary trace %d (corrupted recording) was accepted by the judge: the binding is broken" % (ci - nreal))
    rep.notes["canaries_rejected"] = ncan
    steps = sum(len(t) for t in traces[:nreal])
    per_backend = {}
    opcount = {}
    for r in runs:
        per_backend[r["backend"]] = per_backend.get(r["backend"], 0) + 1
        for x in r["trace"]:
            opcount[x["op"]] = opcount.get(x["op"], 0) + 1
            for y in x.get("ops", []):
                opcount["batch/" + y["op"]] = opcount.get("batch/" + y["op"], 0) + 1
    rep.cov["traces_validated_against_impl"] = nreal
    rep.cov["evaluations"] = steps
    rep.cov["distinct_nontrivial"] = len({(r["backend"], repr(r["ops"])) for r in runs if len(r["trace"]) >= 3})
    rep.cov["rule"] = ("behaviours = TLC simulation of AwStoreGen (depth %d) + random abstract histories + one short history per transition of the bounded instance printed by AwStoreEdges "
                       "(source state built, then the operation; see model_edges) + the repository's own datastore tests as recorded, each run on memory/sqlite/peewee; "
                       "evaluations = recorded calls judged (each with the full projected state of all buckets); a trace is non-trivial "
                       "when it has >= 3 recorded calls; distinct by (backend, operation list)" % depth)
    rep.notes.update(traces_per_backend=per_backend, recorded_ops=opcount, judge_wall_s=stats["wall_s"])
    for r in runs[:2]:
        rep.sample({"backend": r["backend"], "ops": r["ops"][:6], "first_records": [{k: v for k, v in x.items() if k != "st"} for x in r["trace"][:6]]})
    skipped = {}
    for i in sorted(rej):
        if i >= nreal:
            continue
        r = runs[i]
        for info in rej[i]:
            l = info.get("l")
            recd = r["trace"][l - 1] if l and l <= len(r["trace"]) else {}
            clause = info.get("clauses", "").strip('"')
            if not relevant(prop, recd.get("op"), clause, recd):
                k = "%s/%s/%s" % (r["backend"], recd.get("op"), clause)
                skipped[k] = skipped.get(k, 0) + 1
                continue
            sig = dict(backend=r["backend"], op=recd.get("op"), clause=clause, kind=recd.get("kind", ""))
            text = "%s: record %s (%s on bucket %s) rejected, clause %s: %s" % (
                r["backend"], l, recd.get("op"), recd.get("b"), sig["clause"], CLAUSE_NOTE.get(sig["clause"], ""))
            rep.violation(sig, text, dict(backend=r["backend"], ops=r["ops"], probe=r.get("probe"), base=r["base"], scale=r["scale"], failing_record=l,
                                          clause=sig["clause"], trace=r["trace"][:l] if l else r["trace"]))
    rep.notes["rejections_belonging_to_other_properties"] = skipped
    rep.assumptions += ["judge = TLC on spec/AwStoreTrace.tla (Step of AwStore + observed state); the Python harness only moves data",
                        "each trace starts from non-existent buckets; instants are ms ticks relative to a random base 1970..2100, scale 1ms..1h, random UTC offsets",
                        "operations outside the properties' quantifiers (duplicate create, event ops through stale handles, single insert of an id-carrying event) are not generated"]
    return rep.finish()
