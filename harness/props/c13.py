"""C13: events normalise to UTC milliseconds and survive JSON round trips (spec/AwEvent.tla)."""
import copy
import random

from .. import common, event, tlc

MC = """CONSTANTS
  Days = {0, 1, 19000, 47481}
  Secs = {0, 1, 3599, 43200, 86399}
  Uss = {0, 1, 999, 1000, 1001, 500500, 999999}
  Offs <- OffsQ
SPECIFICATION Spec
INVARIANT ThIdempotent
INVARIANT ThZone
INVARIANT ThFloor
CHECK_DEADLOCK FALSE
"""
JUDGE = """SPECIFICATION Spec
INVARIANT Verdict
CHECK_DEADLOCK FALSE
"""


def chunked(seq, n):
    for i in range(0, len(seq), n):
        yield seq[i:i + n]


def run(prop, tier, seed, replay=None):
    rep = common.Report(prop, tier, seed)
    rnd = random.Random(seed)
    q = tier == "quick"
    if replay is None:
        res = tlc.model_check("MC_AwEvent", MC, tag="mc_event")
        rep.add_model(res, "Normalize (UTC, millisecond floor) on limbs: idempotent, independent of the zone an instant is written in, floor within 1 ms, over a grid of dates x seconds x microseconds x offsets")
        cases = []
        if q:
            for ms in range(0, 1000):                      # around every millisecond boundary
                for dlt in (-1, 0, 1, 2, 500):
                    us = (ms * 1000 + dlt) % 1000000
                    cases.append(event.rand_case(rnd, us=us))
        else:
            for us in range(1000000):                      # all 10^6 microsecond values
                cases.append(event.rand_case(rnd, us=us, rep=("dt", "iso", "isoZ")[us % 3]))
        cases += [event.rand_case(rnd) for _ in range(15000 if q else 200000)]
    else:
        cases = [tuple(replay["case"])]
    parts = list(chunked(cases, 1000))
    traces = common.pmap(event.run_cases, parts)
    ncan = 0
    if replay is None:
        bad = copy.deepcopy(traces[0][0])
        bad["out"]["us"] = (bad["out"]["us"] + 1000) % 1000000
        traces.append([copy.deepcopy(traces[0][0])])      # control
        traces.append([bad])
        ncan = 1
    acc, rej, stats = tlc.judge("AwEventTrace", JUDGE, traces, tag="judge_c13", chunk=80, heap="10g")
    rep.add_judge_stats(stats)
    nreal = len(parts)
    rep.notes["canaries_rejected"] = tlc.check_canary_pairs(acc, nreal, ncan, "instant off by one millisecond")
    reps = {}
    for c in cases:
        reps[c[0]] = reps.get(c[0], 0) + 1
    rep.cov.update(traces_validated_against_impl=nreal, evaluations=len(cases), distinct_nontrivial=len({c[:9] for c in cases}),
                   rule=("microsecond values: " + ("around every millisecond boundary (5 per boundary)" if q else "ALL 10^6 values (exhaustive in this dimension)") +
                         "; dates from a boundary pool and random in 1970..2100, UTC offsets from a pool and random in [-14h, +14h], representation aware datetime / ISO with offset / ISO Z, "
                         "durations int / float / timedelta up to 30 days at us granularity (10% negative), ids None/0/7/123456, nested unicode data; distinct by input"),
                   exhaustive=False)
    rep.notes["by_representation"] = reps
    rep.sample(traces[0][0])
    for i in sorted(rej):
        if i >= nreal:
            continue
        for info in rej[i][:5]:
            r = traces[i][info["l"] - 1]
            clause = info["clauses"].strip('"')
            c = cases[i * 1000 + info["l"] - 1]
            rep.violation(dict(rep=r["rep"], clause=clause), "%s: input %s duration %s -> %s / %s" % (clause, r["inp"], r["din"], r["out"], r["dout"]), dict(case=list(c), record=r, clause=clause))
    rep.assumptions += ["date x offset space is sampled; float durations are generated as s + us/1e6 (nearest-microsecond reading)", "schema validation uses the repository's event schema with jsonschema's format checker"]
    return rep.finish()
