"""C14: migrating a legacy peewee database to the SQLite store loses nothing (spec/AwMigration.tla)."""
import copy
import random

from .. import common, migrate, tlc

MC = """CONSTANTS
  BucketIds = {"A", "B"}
  Metas = {%s}
  Vals = {"v1", "v2"}
  EvIds = {1, 2}
  MaxEvs = %d
SPECIFICATION Spec
INVARIANT NothingLost
INVARIANT NoCrossProfile
PROPERTY LegacyUntouched
CHECK_DEADLOCK FALSE
"""
JUDGE = """SPECIFICATION Spec
INVARIANT Verdict
CHECK_DEADLOCK FALSE
"""


def run(prop, tier, seed, replay=None):
    rep = common.Report(prop, tier, seed)
    rnd = random.Random(seed)
    q = tier == "quick"
    if replay is None:
        res = tlc.model_check("AwMigration", MC % (('"m1"', 1) if q else ('"m1", "m2"', 2)), tag="mc_mig", heap="8g", timeout=2400)
        rep.add_model(res, "FirstOpen(profile) over every pair of small legacy stores (one per profile or none): NothingLost, NoCrossProfile, LegacyUntouched")
        cases = [(migrate.gen_case(rnd), seed * 100000 + i) for i in range(160 if q else 3000)]
    else:
        cases = [(replay["case"], replay["case_seed"])]
    recs = common.pmap(migrate.run_case, cases)
    traces = [list(t) for t in recs]
    ncan = 0
    if replay is None:
        for r in [t[0] for t in recs]:
            if r["has_legacy"] and r["new"] and r["new"][0]["evs"] and ncan < 3:
                bad = copy.deepcopy(r)
                bad["new"][0]["evs"].pop()
                traces.append([bad])
                ncan += 1
    acc, rej, stats = tlc.judge("AwMigrationTrace", JUDGE, traces, tag="judge_c14", chunk=400)
    rep.add_judge_stats(stats)
    nreal = len(recs)
    for ci in range(nreal, nreal + ncan):
        if ci in acc:
            raise tlc.TLCFailure("canary (an event missing from the new store) accepted by the judge")
    rep.notes["canaries_rejected"] = ncan
    rep.cov.update(traces_validated_against_impl=nreal, evaluations=nreal,
                   distinct_nontrivial=len({repr(c[0]) for c, r in zip(cases, recs) if r[0]["has_legacy"] and r[0]["legacy"]}),
                   rule="random legacy contents (0..3 buckets incl. unicode ids, metadata with and without name / data dict, 0..130 events with random instants/durations/nested data, duplicates, deletions leaving id gaps), "
                        "both profiles, with and without a legacy file, with a legacy file of the other profile present (then the same process first-opens the other profile's store as well: second record); legacy stores written by processes of their own; each case in a forked child with a private XDG_DATA_HOME; non-trivial = legacy file with at least one bucket")
    rep.notes["events_migrated"] = sum(len(b["evs"]) for t in recs for r in t for b in r["legacy"])
    rep.notes["first_opens_judged"] = sum(len(t) for t in recs)
    rep.sample({k: (v if k not in ("legacy", "new") else [dict(b, evs=b["evs"][:3]) for b in v[:2]]) for k, v in recs[0][0].items()})
    for i in sorted(rej):
        if i >= nreal:
            continue
        info = rej[i][0]
        clause = info["clauses"].strip('"')
        r = recs[i][(info["l"] or 1) - 1]
        rep.violation(dict(profile=r["profile"], clause=clause), "%s profile: %s (legacy %d buckets / %d events, new %d buckets / %d events)" % (
            r["profile"], clause, len(r["legacy"]), sum(len(b["evs"]) for b in r["legacy"]), len(r["new"]), sum(len(b["evs"]) for b in r["new"])),
                      dict(case=cases[i][0], case_seed=cases[i][1], clause=clause))
    rep.assumptions += ["event equality = (instant to ms, duration to us, JSON data) as in C01; new ids may differ from legacy ids", "legacy file bytes compared by SHA-256 of the database and its journal/WAL files"]
    return rep.finish()
