"""C16: grouping / chunking / sorting / limiting / filtering judged by spec/AwGrouping.tla."""
import copy
import itertools
import random

from .. import common, grouping, tlc

MC = """CONSTANTS
  KeyNames = {"k1", "k2"}
  Vals = {"v1", "v2"}
  MaxN = 3
  KeyLists <- KL
  WithKeyNames = %s
SPECIFICATION Spec
INVARIANT DesignMergeOK
CHECK_DEADLOCK FALSE
"""
JUDGE = """SPECIFICATION Spec
INVARIANT Verdict
CHECK_DEADLOCK FALSE
"""
KEYLISTS = [(), ("k1",), ("k2",), ("k1", "k2"), ("k2", "k1"), ("k3", "k1"), ("k9",)]


def chunked(seq, n):
    for i in range(0, len(seq), n):
        yield seq[i:i + n]


def gen_cases(tier, rnd):
    q = tier == "quick"
    cases = []
    small = grouping.small_events()
    # exhaustive: every pair (and triple in thorough) of the 9 small events x key lists
    for combo in itertools.product(small, repeat=2 if q else 3):
        for kl in KEYLISTS[:5]:
            cases.append(("merge", [dict(e, dur=1 + i) for i, e in enumerate(combo)], kl))
    n = 2500 if q else 50000
    for _ in range(n):
        evs = grouping.rand_events(rnd, rnd.randint(0, 4))
        r = rnd.random()
        if r < 0.3:
            cases.append(("merge", evs, rnd.choice(KEYLISTS)))
        elif r < 0.5:
            key = rnd.choice(["k1", "k2"])
            bearing = [dict(e, data=dict(e["data"], **{key: e["data"].get(key, rnd.choice(["v1", "v2", "L1", "L2"]))})) for e in evs]
            if rnd.random() < 0.5:
                bearing.sort(key=lambda e: e["ts"])
                t = 0
                for e in bearing:       # ascending and non-overlapping
                    e["ts"] = t
                    t += e["dur"] + rnd.choice([0, 1])
            cases.append(("chunk", bearing, key))
        elif r < 0.65:
            cases.append(("sort", evs, rnd.choice(["timestamp", "duration"])))
        elif r < 0.75:
            cases.append(("limit", evs, rnd.choice([0, 1, 2, 3, 10])))
        elif r < 0.8:
            cases.append(("sum", evs))
        elif r < 0.85:
            cases.append(("concat", evs, grouping.rand_events(rnd, rnd.randint(0, 3))))
        elif r < 0.92:
            key = rnd.choice(["k1", "k2", "k9"])
            sevs = grouping.rand_events(rnd, rnd.randint(0, 4), vals=("v1", "v2", "v12", "e", "v1"))      # string values only
            rx = rnd.choice(sorted(grouping.RX))
            cases.append(("regex", sevs, key, rx, rnd.choice(grouping.RX[rx])))
        else:
            cases.append(("filter", evs, rnd.choice(["k1", "k2", "k9"]), tuple(rnd.sample(["v1", "v2", "L1", "null", "L0", "L2", "im1", "im2", "L3"], rnd.randint(0, 3)))))
    return cases


def run(prop, tier, seed, replay=None):
    rep = common.Report(prop, tier, seed)
    rnd = random.Random(seed)
    if replay is None:
        res = tlc.model_check("MC_AwGrouping", MC % "TRUE", tag="mc_grp", heap="8g")
        rep.add_model(res, "transcription of merge_events_by_keys' dictionary accumulation (composite key of (key, value) pairs) satisfies MergeClause for every list of <= 3 events over 2 keys x 2 values x 5 key lists")
        neg = tlc.model_check("MC_AwGrouping", MC % "FALSE", tag="mc_grp_neg", heap="8g", expect_ok=False)
        if neg["ok"]:
            raise tlc.TLCFailure("negative control (composite key without key names) was not refuted")
        rep.notes["negative_control"] = "composite key built from values only is refuted after %d states" % neg["states"]
        cases = gen_cases(tier, rnd)
    else:
        cases = [tuple(replay["case"])]
    parts = [(seed * 1000 + i, c) for i, c in enumerate(chunked(cases, 400))]
    traces = common.pmap(grouping.run_cases, parts)
    ncan = 0
    if replay is None:
        for t in traces[:8]:
            for r in t:
                if r["op"] == "merge" and r["out"] and r["keys"]:
                    bad = copy.deepcopy(r)
                    bad["out"][0]["dur"] += 1
                    traces.append([copy.deepcopy(r)])      # control
                    traces.append([bad])
                    ncan += 1
                    break
    acc, rej, stats = tlc.judge("AwGroupingTrace", JUDGE, traces, tag="judge_c16", chunk=60)
    rep.add_judge_stats(stats)
    nreal = len(parts)
    rep.notes["canaries_rejected"] = tlc.check_canary_pairs(acc, nreal, ncan, "group duration corrupted")
    byop = {}
    for c in cases:
        byop[c[0]] = byop.get(c[0], 0) + 1
    rep.cov.update(traces_validated_against_impl=nreal, evaluations=len(cases), distinct_nontrivial=len({repr(c) for c in cases if c[1]}),
                   rule="merge: every tuple of small events (2 keys x {v1,v2,absent}) x 5 key lists, plus random lists of <= 5 events over 3 keys with values {v1,v2,list,null}, missing keys, "
                        "duplicates; chunk on key-bearing lists (half of them ascending); sort/limit/sum/concat/filter+exclude on the same pool; filter_keyvals_regex on string-valued events (values as token sets, regexes as one token / empty / dot / never-matching, several concrete regexes per abstract one); non-trivial = non-empty input; distinct by input")
    rep.notes["calls_by_function"] = byop
    rep.sample(traces[0][:2])
    for i in sorted(rej):
        if i >= nreal:
            continue
        for info in rej[i][:4]:
            r = traces[i][info["l"] - 1]
            clause = info["clauses"].strip('"')
            case = cases[i * 400 + info["l"] - 1]
            rep.violation(dict(op=r["op"], clause=clause), "%s: %s" % (clause, {k: v for k, v in r.items() if k != "inp2"}), dict(case=list(case), record=r))
    rep.assumptions += ["chunk_events_by_key is judged on inputs in which every event bears the key; maximal runs are required on ascending input only; pulsetime parameter left at its default"]
    return rep.finish()
