"""Pass 2 for C06 / C18: run operation histories on the file-backed stores under a virtual clock and record
what survives a crash at every SQL statement.

Crash points are real: (a) at every statement the database files are copied as they are on disk at that
instant (what a reopen after process death at that instant would find) and (b) for a sample of statements
the history is re-run in a forked child that is SIGKILLed inside the statement callback; plus one run that
ends with os._exit (exit without shutdown).  The parent reopens each file set with a fresh sqlite3
connection and records buckets / event tags.  No verdicts here: spec/AwDurableTrace.tla judges."""
import json
import os
import random
import shutil
import signal
import sqlite3
import time as _time

# ---- virtual clock: installed before aw_* is imported, independent of how the package reads the time
import datetime as _dtmod

_real_dt = _dtmod.datetime
if not getattr(_dtmod.datetime, "_aw_fake", False):
    class FakeDT(_real_dt):
        _aw_fake = True
        off = _dtmod.timedelta(0)

        @classmethod
        def now(cls, tz=None):
            return _real_dt.now(tz) + cls.off

        @classmethod
        def utcnow(cls):
            return _real_dt.utcnow() + cls.off

    _dtmod.datetime = FakeDT
    _rt, _rm, _rp = _time.time, _time.monotonic, _time.perf_counter
    _time.time = lambda: _rt() + FakeDT.off.total_seconds()
    _time.monotonic = lambda: _rm() + FakeDT.off.total_seconds()
    _time.perf_counter = lambda: _rp() + FakeDT.off.total_seconds()
else:
    FakeDT = _dtmod.datetime

from . import common  # noqa: E402

common.use_repo()
from datetime import timedelta, timezone  # noqa: E402

T0 = _real_dt(2020, 1, 1, tzinfo=timezone.utc)
BUCKETS = ["A", "B"]


FAT = 90000        # payload size of the events of a "fat" history (a few dozen buffered writes exceed SQLite's page cache)


def mkds(kind, path):
    from aw_datastore import Datastore
    from aw_datastore.storages import PeeweeStorage, SqliteStorage
    return Datastore(SqliteStorage if kind == "sqlite" else PeeweeStorage, testing=True, filepath=path)


def conn_of(kind, ds):
    return ds.storage_strategy.conn if kind == "sqlite" else ds.storage_strategy.db.connection()


def observe(kind, path):
    """What a fresh connection finds in the file (after WAL recovery).  Total: a file that cannot be read as a sound database is
    an observation too (a store holding one bucket named DAMAGED-FILE, which no prefix of any history explains)."""
    damaged = {"b": [{"id": "DAMAGED-FILE", "m": "None", "tags": []}], "orph": []}
    try:
        c = sqlite3.connect(path)
        try:
            if [r[0] for r in c.execute("PRAGMA integrity_check").fetchall()] != ["ok"]:
                return damaged
            if kind == "sqlite":
                bs = c.execute("select rowid,id,name from buckets").fetchall()
                es = c.execute("select bucketrow,datastr from events").fetchall()
            else:
                bs = c.execute("select key,id,name from bucketmodel").fetchall()
                es = c.execute("select bucket_id,datastr from eventmodel").fetchall()
        finally:
            c.close()
    except sqlite3.DatabaseError:
        return damaged
    key = {r[0]: r[1] for r in bs}
    st = {r[1]: {"m": r[2] or "None", "tags": []} for r in bs}
    orphans = []
    for br, ds_ in es:
        try:
            dd = json.loads(ds_)
            tag = dd.get("t", -1)
            if "blob" in dd and dd["blob"] != chr(97 + tag % 26) * FAT:
                tag = -1          # a payload that no single write produced (torn)
        except Exception:
            tag = -1
        if br in key:
            st[key[br]]["tags"].append(tag)
        else:
            orphans.append(tag)
    for b in st:
        st[b]["tags"].sort()
    return {"b": [{"id": b, "m": st[b]["m"], "tags": st[b]["tags"]} for b in sorted(st)], "orph": sorted(orphans)}


# -------------------------------------------------------------------------------------------------
# histories

def concretise(abstract, rnd):
    """AwDurable behaviour (op kind + size) -> concrete history over buckets A/B.
    A shadow of which buckets exist / how many events they hold keeps the history inside the API's contract."""
    ops = []
    exists = {b: False for b in BUCKETS}
    count = {b: 0 for b in BUCKETS}
    known = {b: [] for b in BUCKETS}      # handles of events whose id the caller knows (single inserts)
    mver = 0
    if rnd.random() < 0.15:
        # the store is created beside a legacy database: the migration is the first operation of the history
        n = rnd.choice([0, 3, 30, 49, 50, 51, 70])
        ops.append({"op": "migrate", "n": n})
        exists["A"], count["A"] = True, n
    for a in abstract:
        o, n = a["op"], a["n"]
        b = rnd.choice(BUCKETS)
        if o == "tick":
            ops.append(dict({"op": "tick", "d": n}, **({"fat": a["fat"]} if "fat" in a else {})))
            continue
        if o == "relast":
            cand = [x for x in BUCKETS if exists[x] and count[x] > 0]
            if cand:
                ops.append({"op": "replace_last_blind", "b": rnd.choice(cand)})
            continue
        if o == "bucket":
            if n == 2:
                cand = [x for x in BUCKETS if exists[x]]
                if cand:
                    b = rnd.choice(cand)
                    ops.append({"op": "delete_bucket", "b": b})
                    exists[b], count[b], known[b] = False, 0, []
                    continue
            mver += 1
            if exists[b]:
                ops.append({"op": "update", "b": b, "m": "m%d" % mver})
            else:
                ops.append({"op": "create", "b": b, "m": "m%d" % mver})
                exists[b] = True
            continue
        if not exists[b]:
            cand = [x for x in BUCKETS if exists[x]]
            if not cand:
                mver += 1
                ops.append({"op": "create", "b": b, "m": "m%d" % mver})
                exists[b] = True
            else:
                b = rnd.choice(cand)
        if o == "fail":
            # an operation that raises: replace-last on an empty bucket, or update / delete of a bucket that does not exist
            empties = [x for x in BUCKETS if exists[x] and count[x] == 0]
            absent = [x for x in BUCKETS if not exists[x]] or ["Z"]
            present = [x for x in BUCKETS if exists[x]]
            if present and rnd.random() < 0.3:
                ops.append({"op": "fail_create_duplicate", "b": rnd.choice(present)})
            elif present and rnd.random() < 0.55:
                ops.append({"op": "fail_upsert_unknown", "b": rnd.choice(present)})
            elif empties and rnd.random() < 0.6:
                ops.append({"op": "fail_replace_last", "b": rnd.choice(empties)})
            else:
                ops.append({"op": rnd.choice(["fail_delete_bucket", "fail_update_bucket", "fail_lookup"]), "b": rnd.choice(absent)})
            continue
        if o == "upsert":
            ops.append({"op": "upsert_known", "b": b, "k": a.get("n", 3)})
            continue
        if o == "reopen":
            ops.append({"op": "reopen", "b": b})
            continue
        if o == "learn":
            ops.append({"op": "learn", "b": b})
        elif o == "read":
            ops.append({"op": rnd.choice(["get", "get1", "count", "byid", "learn", "learn"]), "b": b})
        elif o == "insert":
            if n == 1:
                ops.append({"op": "insert", "b": b})
                known[b].append(len(ops) - 1)
                count[b] += 1
            else:
                ops.append({"op": "insert_many", "b": b, "n": n})
                count[b] += n
        elif o == "replace":
            if count[b] == 0:
                ops.append({"op": "insert", "b": b})
                known[b].append(len(ops) - 1)
                count[b] += 1
            elif known[b] and rnd.random() < 0.4:
                ops.append({"op": "replace", "b": b, "h": rnd.choice(known[b])})
            elif known[b] and rnd.random() < 0.3:
                ops.append({"op": "upsert_many", "b": b, "hs": rnd.sample(known[b], min(len(known[b]), rnd.randint(1, 3)))})
            else:
                ops.append({"op": rnd.choice(["replace_last", "replace_last_blind", "replace_last_blind"]), "b": b})
        elif o == "delete":
            if a.get("blind") or (count[b] > 0 and rnd.random() < 0.6):
                ops.append({"op": "delete_known", "b": b})
                count[b] = max(0, count[b] - 1)
            elif known[b] and rnd.random() < 0.7:
                h = known[b].pop(rnd.randrange(len(known[b])))
                ops.append({"op": "delete", "b": b, "h": h})
                count[b] -= 1
            elif count[b] > 0:
                ops.append({"op": "delete_newest", "b": b})
                count[b] -= 1
                known[b] = []      # which one went is only known at run time
            else:
                ops.append({"op": "delete_dead", "b": b})
    return ops


def random_abstract(rnd):
    """second source of abstract behaviours (same vocabulary as AwDurable's Emit)"""
    out = []
    mode = rnd.choice(["mixed", "trickle", "slowtrickle", "deletes", "bursts", "upserts", "idlebulk", "reopened", "heartbeats"])
    if mode == "heartbeats":
        # what a watcher does: one event, then a long run of rewrites of the newest event with no read in between - every
        # rewrite is an elementary write and counts towards the bound on what a crash may lose
        out = [{"op": "insert", "n": 1}]
        if rnd.random() < 0.5:
            out.append({"op": "read", "n": 0})
        for _ in range(rnd.choice([55, 70, 110])):
            out.append({"op": "relast", "n": 1})
        out.append({"op": "insert", "n": 1})
        return out
    if mode == "reopened":
        # a store that was written earlier is opened again by a new process and then fed a slow trickle, without any bucket
        # operation or read in between: the age rule must work from the first write on
        out = [{"op": "insert", "n": rnd.choice([1, 3])}, {"op": "read", "n": 0}, {"op": "reopen", "n": 0}]
        for _ in range(rnd.randint(2, 6)):
            out.append({"op": "tick", "n": rnd.choice([15, 30, 16, 3600])})
            out.append({"op": "insert", "n": 1})
        return out
    ticky = rnd.random() < 0.5      # upsert runs: half of the histories have idle time inside the run (age flushes), half are pure bursts (count flushes)
    for _ in range(rnd.randint(5, 18)):
        r = rnd.random()
        if mode == "trickle":
            out.append({"op": "tick", "n": rnd.choice([1, 9, 11, 15, 16, 30, 3600, 86400, 86403, 172807, 2592001])})
            out.append({"op": rnd.choice(["insert", "insert", "replace", "delete"]), "n": 1})
            if r < 0.1:
                out.append({"op": "read", "n": 0})
        elif mode == "idlebulk":
            # a bulk write larger than any internal chunk size, issued long after the last flush: durable as a whole on return
            out.append({"op": "tick", "n": rnd.choice([15, 30, 3600])})
            out.append({"op": "insert", "n": rnd.choice([101, 120, 130, 250, 70, 51])})
            if r < 0.3:
                out.append({"op": "read", "n": 0})
        elif mode == "slowtrickle":
            # every gap is below the age limit, their sum is not: only the age of the OLDEST buffered write can flush these
            out.append({"op": "tick", "n": rnd.choice([4, 6, 9, 9])})
            out.append({"op": "insert", "n": 1})
        elif mode == "deletes":
            if r < 0.35:
                out.append({"op": "insert", "n": rnd.choice([1, 30, 70, 70])})
                out.append({"op": "learn", "n": 0})
            else:
                for _ in range(rnd.choice([1, 3, 20, 60, 66, 80])):
                    out.append({"op": "delete", "n": 1, "blind": True})
        elif mode == "upserts":
            if not out:
                out.append({"op": "insert", "n": rnd.choice([3, 30])})
                out.append({"op": "learn", "n": 0})
            for _ in range(rnd.choice([1, 5, 25, 40])):
                if ticky and rnd.random() < 0.3:
                    out.append({"op": "tick", "n": rnd.choice([1, 9, 15, 30, 3600])})     # a bulk write issued long after the last flush
                out.append({"op": "upsert", "n": rnd.choice([1, 2, 3])})
            if r < 0.3:
                out.append({"op": "insert", "n": rnd.choice([1, 30, 49])})
        elif mode == "bursts":
            out.append({"op": "insert", "n": rnd.choice([1, 2, 3, 30, 49, 50, 51, 70])})
            if r < 0.2:
                out.append({"op": "tick", "n": rnd.choice([1, 15, 30])})
        else:
            if r < 0.25:
                out.append({"op": "tick", "n": rnd.choice([1, 9, 15, 30, 86403])})
            elif r < 0.5:
                out.append({"op": "insert", "n": rnd.choice([1, 1, 2, 3, 30, 49, 50, 51, 70, 101, 130])})
            elif r < 0.65:
                out.append({"op": "replace", "n": 1})
            elif r < 0.8:
                out.append({"op": "delete", "n": 1})
            elif r < 0.88:
                out.append({"op": "read", "n": 0})
            else:
                out.append({"op": "bucket", "n": rnd.choice([1, 1, 2])})
        if rnd.random() < 0.2:
            out.append({"op": "fail", "n": 0})
            if rnd.random() < 0.5:
                out.insert(max(0, len(out) - 3), {"op": "bucket", "n": 1})      # a freshly created (empty) bucket to fail on
    return out[:120]


def fat_abstract(rnd):
    """events with large payloads: a few dozen buffered rewrites / deletions of committed events are more than SQLite's page
    cache holds, so pages of the open transaction reach the files before the commit decision"""
    out = [{"op": "tick", "n": 0, "fat": True}, {"op": "insert", "n": rnd.choice([24, 30])}, {"op": "learn", "n": 0}]
    for _ in range(rnd.choice([20, 30])):
        out.append({"op": "upsert", "n": rnd.choice([1, 2, 3])} if rnd.random() < 0.8 else {"op": "delete", "n": 1, "blind": True})
    out.append({"op": "insert", "n": 1})
    return out


# -------------------------------------------------------------------------------------------------
# execution

def migrated_path(workdir):
    """where the default (testing profile) SQLite store lives when XDG_DATA_HOME = workdir/xdg"""
    return os.path.join(workdir, "xdg", "activitywatch", "aw-server", "sqlite-testing.v1.db")


class Runner:
    def __init__(self, kind, path, migrate_n=None):
        """migrate_n: the store is the default-location SQLite store created for the first time beside a legacy
        peewee database holding one bucket 'A' with migrate_n events (the migration is the history's first operation)"""
        from aw_core.models import Event
        self.Event = Event
        self.kind, self.path = kind, path
        self.seq = 0
        self.tag = 0
        self.fat = False
        self.migrated = None
        if migrate_n is not None:
            from aw_datastore import Datastore
            from aw_datastore.storages import PeeweeStorage, SqliteStorage
            os.environ["XDG_DATA_HOME"] = os.path.join(os.path.dirname(path), "xdg")
            legacy = Datastore(PeeweeStorage, testing=True)
            lb = legacy.create_bucket("A", "t", "c", "h", name="m0")
            evs = [self.ev() for _ in range(migrate_n)]
            if evs:
                lb.insert([e for e, _ in evs])
            legacy.storage_strategy.db.close()
            self.ds = Datastore(SqliteStorage, testing=True)      # default location: runs the migration
            self.path = migrated_path(os.path.dirname(path))
            self.migrated = [{"k": "bcreate", "b": "A", "m": "m0"}] + [{"k": "ins", "b": "A", "t": t} for _, t in evs]
        else:
            self.ds = mkds(kind, path)
        self.ids = {}        # op index of a single insert -> (id, tag)
        self.bytag = {}      # bucket -> {tag: id} learnt from reads and single inserts
        self.live = {}       # bucket -> {tag: seq}: which tags the caller has written and not removed (timestamps strictly increase)

    def ev(self):
        self.seq += 1
        self.tag += 1
        data = {"t": self.tag}
        if self.fat:
            data["blob"] = chr(97 + self.tag % 26) * FAT
        return self.Event(timestamp=T0 + timedelta(seconds=self.seq), duration=1, data=data), self.tag

    def run(self, ops, on_stmt=None, log=None):
        """Execute; on_stmt(k, opindex, sql) is called before the k-th SQL statement runs."""
        cnt = [0]
        cur = [-1]

        def cb(sql):
            if on_stmt is not None:
                on_stmt(cnt[0], cur[0], sql)
            cnt[0] += 1

        conn_of(self.kind, self.ds).set_trace_callback(cb)
        ds = self.ds
        nlog = [0]

        def split_read(b_):
            """a harness operation that reads before it writes is two library calls: the read is logged as an
            operation of its own (it may flush), the statements that follow belong to the write"""
            if log is not None:
                log.append({"op": "get1", "b": b_, "writes": [], "raised": "none"})
            nlog[0] += 1
            cur[0] = nlog[0]

        for i, op in enumerate(ops):
            cur[0] = nlog[0]
            o = op["op"]
            if o == "migrate":
                # happened in the constructor (before statements could be observed)
                w = self.migrated or []
                lv = self.live.setdefault("A", {})
                for x in w:
                    if x["k"] == "ins":
                        lv[x["t"]] = x["t"]
                if log is not None:
                    log.append(dict(op, writes=w, raised="none"))
                nlog[0] += 1
                continue
            b = op.get("b")
            w = []
            raised = "none"
            try:
                if o == "tick":
                    FakeDT.off += timedelta(seconds=op["d"])
                    if "fat" in op:
                        self.fat = op["fat"]
                elif o == "create":
                    ds.create_bucket(b, "t", "c", "h", name=op["m"])
                    w = [{"k": "bcreate", "b": b, "m": op["m"]}]
                elif o == "update":
                    ds.update_bucket(b, name=op["m"])
                    w = [{"k": "bupdate", "b": b, "m": op["m"]}]
                elif o == "delete_bucket":
                    ds.delete_bucket(b)
                    w = [{"k": "bclear", "b": b}, {"k": "bdelete", "b": b}]
                elif o == "insert":
                    e, t = self.ev()
                    r = ds[b].insert(e)
                    self.ids[i] = (r.id, t)
                    self.bytag.setdefault(b, {})[t] = r.id
                    w = [{"k": "ins", "b": b, "t": t}]
                elif o == "insert_many":
                    evs = [self.ev() for _ in range(op["n"])]
                    ds[b].insert([e for e, _ in evs])
                    w = [{"k": "ins", "b": b, "t": t} for _, t in evs]
                elif o == "upsert_many":
                    evl = []
                    for h in op["hs"]:
                        if h in self.ids:
                            e, t = self.ev()
                            e.id = self.ids[h][0]
                            w.append({"k": "rew", "b": b, "old": self.ids[h][1], "t": t})
                            self.ids[h] = (self.ids[h][0], t)
                            evl.append(e)
                    if evl:
                        ds[b].insert(evl)
                elif o == "replace":
                    if op["h"] in self.ids:
                        e, t = self.ev()
                        ds[b].replace(self.ids[op["h"]][0], e)
                        w = [{"k": "rew", "b": b, "old": self.ids[op["h"]][1], "t": t}]
                        self.ids[op["h"]] = (self.ids[op["h"]][0], t)
                elif o == "replace_last_blind":
                    # no read first: the newest event is the one with the largest (strictly increasing) timestamp written so far
                    lv = self.live.get(b, {})
                    if lv:
                        old = max(lv)   # tags grow with the timestamps
                        e, t = self.ev()
                        ds[b].replace_last(e)
                        w = [{"k": "rew", "b": b, "old": old, "t": t}]
                        for h, (i_, t_) in list(self.ids.items()):
                            if t_ == old:
                                self.ids[h] = (i_, t)
                elif o == "replace_last":
                    # which event is the newest is read back from the store before (that read flushes, as in real use)
                    last = ds[b].get(1)
                    split_read(b)
                    if last:
                        e, t = self.ev()
                        ds[b].replace_last(e)
                        w = [{"k": "rew", "b": b, "old": last[0].data["t"], "t": t}]
                        for h, (i_, t_) in list(self.ids.items()):
                            if i_ == last[0].id and t_ == last[0].data["t"]:
                                self.ids[h] = (i_, t)
                elif o == "delete":
                    if op["h"] in self.ids:
                        i_, t_ = self.ids.pop(op["h"])
                        self.bytag.get(b, {}).pop(t_, None)
                        ds[b].delete(i_)
                        w = [{"k": "rem", "b": b, "t": t_}]
                elif o == "learn":
                    # a read that tells the caller the ids of everything in the bucket (flushes, like every read)
                    self.bytag[b] = {e.data["t"]: e.id for e in ds[b].get(-1)}
                elif o == "delete_known":
                    # delete by id without reading first: oldest event whose id the caller knows
                    kn = self.bytag.get(b, {})
                    lv = self.live.get(b, {})
                    cand = sorted(t_ for t_ in kn if t_ in lv)
                    if cand:
                        gone = kn.pop(cand[0])
                        ds[b].delete(gone)
                        w = [{"k": "rem", "b": b, "t": cand[0]}]
                        for h, (i_, t_) in list(self.ids.items()):
                            if t_ == cand[0]:
                                self.ids.pop(h)
                elif o == "upsert_known":
                    # bulk upsert (list insert of id-carrying events) of up to three events whose ids the caller knows; no read
                    kn = self.bytag.get(b, {})
                    lv = self.live.get(b, {})
                    cand = sorted(t_ for t_ in kn if t_ in lv)[:op.get("k", 3)]
                    evl = []
                    for t_old in cand:
                        e, t = self.ev()
                        e.id = kn.pop(t_old)
                        kn[t] = e.id
                        w.append({"k": "rew", "b": b, "old": t_old, "t": t})
                        for h, (i_, t_) in list(self.ids.items()):
                            if t_ == t_old:
                                self.ids[h] = (i_, t)
                        evl.append(e)
                    if evl:
                        ds[b].insert(evl)
                elif o == "delete_newest":
                    last = ds[b].get(1)
                    split_read(b)
                    if last:
                        ds[b].delete(last[0].id)
                        w = [{"k": "rem", "b": b, "t": last[0].data["t"]}]
                        for h, (i_, t_) in list(self.ids.items()):
                            if i_ == last[0].id:
                                self.ids.pop(h)
                elif o == "delete_dead":
                    ds[b].delete(987654321)
                elif o.startswith("fail_"):
                    try:
                        if o == "fail_replace_last":
                            if not self.live.get(b):        # only on a bucket the caller knows to be empty
                                e, t = self.ev()
                                ds[b].replace_last(e)
                            # a backend may also treat this as a no-op; it must not create an event
                        elif o == "fail_upsert_unknown":
                            e, t = self.ev()
                            e.id = 987654321
                            ds[b].insert([e])          # an id no event has: a backend may raise or ignore it, it must not store anything
                        elif o == "fail_create_duplicate":
                            ds.create_bucket(b, "t", "c", "h", name="dup")     # the id exists already: rejected, nothing changes
                        elif o == "fail_delete_bucket":
                            ds.delete_bucket(b)
                        elif o == "fail_update_bucket":
                            ds.update_bucket(b, name="zz")
                        else:
                            ds[b]
                    except Exception:
                        pass
                elif o == "reopen":
                    # the process ends in good order and a new one opens the same file: everything is committed first (what a
                    # shutdown does), then a new storage object is created on the existing database
                    if self.kind == "sqlite":
                        ds.storage_strategy.commit()
                        ds.storage_strategy.conn.close()
                    else:
                        ds.storage_strategy.db.close()
                    self.ds = ds = mkds(self.kind, self.path)
                    conn_of(self.kind, ds).set_trace_callback(cb)
                elif o == "get":
                    ds[b].get(-1)
                elif o == "get1":
                    ds[b].get(1)
                elif o == "count":
                    ds[b].get_eventcount()
                elif o == "byid":
                    ds[b].get_by_id(1)
            except Exception as ex:      # an operation of the history raised: recorded, the history goes on
                raised = type(ex).__name__
            for x in w:
                lv = self.live.setdefault(x["b"], {})
                if x["k"] == "ins":
                    lv[x["t"]] = self.seq
                elif x["k"] == "rew":
                    lv.pop(x["old"], None)
                    lv[x["t"]] = self.seq
                elif x["k"] == "rem":
                    lv.pop(x["t"], None)
                elif x["k"] in ("bclear", "bcreate"):
                    lv.clear()
            if log is not None:
                log.append(dict(op, writes=w, raised=raised))
            nlog[0] += 1


def _child(fn):
    """run fn in a forked child and return its JSON result"""
    r, w = os.pipe()
    pid = os.fork()
    if pid == 0:
        try:
            os.close(r)
            try:
                res = fn()
            except BaseException:
                import traceback
                res = {"error": traceback.format_exc()}
            os.write(w, json.dumps(res).encode())
        finally:
            os._exit(0)           # exit without shutdown: no atexit, no close, no commit
    os.close(w)
    buf = b""
    while True:
        c = os.read(r, 1 << 20)
        if not c:
            break
        buf += c
    os.close(r)
    os.waitpid(pid, 0)
    return json.loads(buf) if buf else None


def record_history(kind, ops, root, rnd, nkills):
    """One trace for the judge: ops with writes, and an observation per crash point."""
    for f in os.listdir(root):
        p = os.path.join(root, f)
        shutil.rmtree(p) if os.path.isdir(p) else os.remove(p)
    mig = ops[0]["n"] if ops and ops[0]["op"] == "migrate" and kind == "sqlite" else None
    if ops and ops[0]["op"] == "migrate" and kind != "sqlite":
        ops = [{"op": "create", "b": "A", "m": "m0"}] + ([{"op": "insert_many", "b": "A", "n": ops[0]["n"]}] if ops[0]["n"] else []) + ops[1:]
    drydir = os.path.join(root, "dry")
    os.mkdir(drydir)
    dbp = os.path.join(drydir, "dry.db")
    real_dbp = migrated_path(drydir) if mig is not None else dbp
    snapdir = os.path.join(root, "snaps")
    os.mkdir(snapdir)

    def dry():
        FakeDT.off = timedelta(0)
        rn = Runner(kind, dbp, mig)
        stm = []

        run = [None, 0]

        def on_stmt(k, opi, sql):
            verb = sql.split()[0].upper() if sql.split() else "?"
            # thin out the interior of long runs of identical statements inside one operation (bulk inserts):
            # the first three, every 17th and whatever follows the run are kept
            if run[0] == (opi, verb):
                run[1] += 1
            else:
                run[0], run[1] = (opi, verb), 0
            if run[1] > 2 and run[1] % 17 != 0:
                return
            d = os.path.join(snapdir, str(k))
            os.mkdir(d)
            for suf in ("", "-wal", "-journal"):
                if os.path.exists(real_dbp + suf):
                    shutil.copyfile(real_dbp + suf, os.path.join(d, "c.db" + suf))
            st = None
            if rn.fat:
                # large files: observed at once, the copy is not kept
                st = observe(kind, os.path.join(d, "c.db"))
                shutil.rmtree(d)
            stm.append((k, opi, sql.split()[0].upper() if sql.split() else "?", st))

        log = []
        rn.run(ops, on_stmt, log)
        return {"log": log, "stm": stm}

    res = _child(dry)
    if res is None or "error" in res:
        raise RuntimeError("dry run of history failed: %s\n%s" % (ops, res and res["error"]))
    log, stm = res["log"], res["stm"]
    final = observe(kind, real_dbp)
    obs = []
    for k, opi, verb, st in stm:
        obs.append({"k": k, "op": opi, "how": "files-at-statement", "st": st if st is not None else observe(kind, os.path.join(snapdir, str(k), "c.db"))})
    shutil.rmtree(snapdir)
    # real SIGKILL at a sample of statements (first, last, and random ones)
    ks = sorted({s[0] for s in stm})
    pick = set(ks[:1] + ks[-1:]) | set(rnd.sample(ks, min(len(ks), nkills)))
    opof = {s[0]: s[1] for s in stm}
    for k in sorted(pick):
        kd = os.path.join(root, "kill%d" % k)
        os.mkdir(kd)
        p2 = os.path.join(kd, "k.db")
        real_p2 = migrated_path(kd) if mig is not None else p2
        pid = os.fork()
        if pid == 0:
            try:
                FakeDT.off = timedelta(0)
                rn = Runner(kind, p2, mig)

                def killer(kk, opi, sql, k=k):
                    if kk == k:
                        os.kill(os.getpid(), signal.SIGKILL)

                rn.run(ops, killer)
            finally:
                os._exit(0)
        os.waitpid(pid, 0)
        obs.append({"k": k, "op": opof[k], "how": "sigkill", "st": observe(kind, real_p2)})
        shutil.rmtree(kd, ignore_errors=True)
    obs.sort(key=lambda o: (o["k"], o["how"]))
    obs.append({"k": len(stm), "op": len(log), "how": "exit-without-shutdown", "st": final})
    # flatten writes
    flat, endidx, timeof, t = [], [], [], 0
    for rec in log:
        timeof.append(t)
        if rec["op"] == "tick":
            t += rec["d"]
        flat += rec["writes"]
        endidx.append(len(flat))
    slim = [{"op": r["op"], "writes": r["writes"], "raised": r.get("raised", "none")} for r in log]
    return {"lazy": kind == "sqlite", "ops": slim, "flat": flat, "endidx": endidx, "timeof": timeof, "obs": obs}


def _worker(args):
    kind, seed, jobs, nkills = args
    rnd = random.Random(seed)
    if seed % 2:
        # half of the workers live east of UTC (local time and UTC differ by hours): elapsed time does not depend on the zone
        os.environ["TZ"] = "Asia/Tokyo"
        _time.tzset()
    root = common.scratch_dir("d%d_%s_%d" % (os.getpid(), kind, seed % 100000))
    out = []
    try:
        for key, ops in jobs:
            tr = record_history(kind, ops, root, rnd, nkills)
            out.append({"backend": kind, "key": key, "history": ops, "trace": tr})
    finally:
        shutil.rmtree(root, ignore_errors=True)
    return out


def run_batch(histories, seed, backends=("sqlite", "peewee"), nkills=6, procs=None):
    procs = procs or common.ncpu()
    per = max(1, procs // len(backends))
    tasks = []
    for bi, kind in enumerate(backends):
        for w in range(per):
            part = histories[w::per]
            if part:
                tasks.append((kind, seed * 1000 + bi * 100 + w, part, nkills))
    res = common.pmap(_worker, tasks, procs=len(tasks))
    return [r for part in res for r in part]
