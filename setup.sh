#!/bin/sh
# Offline setup: parse every TLA+ module, byte-compile the harness, self-test the TLC <-> JSON round trip.
set -e
cd "$(dirname "$0")"
/venv/bin/python -m compileall -q harness check >/dev/null
/venv/bin/python -m harness.selftest
